#!/bin/bash
# MANIFEST.setup_cmd: builds the harness once (plain and -race) so that later checks only do incremental builds.
set -u
cd "$(dirname "$0")"
export GOFLAGS=-mod=mod GOPROXY=off GOSUMDB=off GOTOOLCHAIN=local CGO_ENABLED=1
mkdir -p .bin evidence replays
cd harness
go build -tags verif -o ../.bin/vmon ./cmd/vmon || exit 1
go build -race -tags verif -o ../.bin/vmon-race ./cmd/vmon || exit 1
(cd /repo && go build -o /verif/.bin/gtfs-cli ./cmd) || exit 1
echo "setup ok: $(../.bin/vmon list | tr '\n' ' ')"
