#!/bin/bash
# tools/seedall.sh [jobs] — re-runs every seeded change in /verif/seeded against its owning property's quick check
# and writes /verif/seeded/RESULTS.md (regression run after generator changes).
cd "$(dirname "$0")/.."
J="${1:-3}"
ls -d seeded/*/ | sed 's#seeded/##; s#/##' | xargs -P "$J" -I{} sh -c 'p=$(echo {} | cut -c1-3); [ {} = C17-d ] && p=C06; [ {} = C02-h ] && p=C04; [ {} = C07-j ] && p=C06; tools/seedcheck.sh seeded/{} $p 2>&1 | grep RESULT | tail -1' | sort > /tmp/seedall.$$
{ echo "# Seeded changes vs the owning property's quick check"; echo; echo '```'; cat /tmp/seedall.$$; echo '```'; echo; echo "caught: $(grep -c CAUGHT /tmp/seedall.$$) / $(wc -l < /tmp/seedall.$$)"; } > seeded/RESULTS.md
rm -f /tmp/seedall.$$
tail -3 seeded/RESULTS.md
