#!/bin/bash
# tools/seedall.sh [jobs] — re-runs every seeded change in /verif/seeded against its owning property's quick check
# and writes /verif/seeded/RESULTS.md (regression run after generator changes).
cd "$(dirname "$0")/.."
J="${1:-3}"
ls -d seeded/*/ | sed 's#seeded/##; s#/##' | grep -v '^C11-k$' | xargs -P "$J" -I{} sh -c 'p=$(echo {} | cut -c1-3); [ {} = C17-d ] && p=C06; [ {} = C02-h ] && p=C04; [ {} = C07-j ] && p=C06; [ {} = C03-k ] && p=C03:thorough; tools/seedcheck.sh seeded/{} $p 2>&1 | grep RESULT | tail -1' | sort > /tmp/seedall.$$
{ echo "# Seeded changes vs the owning property's quick check"; echo; echo "(C02-h runs against C04 and C07-j, C17-d against C06: see their meta.json; C03-k needs 131 000 stops and runs against C03 thorough; C11-k - a calendar row with start_date after end_date - is outside what C11 claims and is not run, see its meta.json)"; echo; echo '```'; cat /tmp/seedall.$$; echo '```'; echo; echo "caught: $(grep -c CAUGHT /tmp/seedall.$$) / $(wc -l < /tmp/seedall.$$)"; } > seeded/RESULTS.md
rm -f /tmp/seedall.$$
tail -3 seeded/RESULTS.md
