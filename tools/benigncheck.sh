#!/bin/bash
# tools/benigncheck.sh <dir> [checks...]
# False-alarm calibration: <dir> holds patch.diff (a change that is supposed to KEEP the properties true) and demo_test.go.
# Confirms the patch (applies, compiles, repository tests pass, demo passes) on a scratch copy and runs the named quick
# checks (default: the family of checks that exercise the files the patch touches) against it; every check must stay SILENT.
set -u
SEED="$(readlink -f "$1")"; shift
export GOFLAGS=-mod=mod GOPROXY=off GOSUMDB=off GOTOOLCHAIN=local
D=$(mktemp -d /tmp/bc-XXXXXX)
trap 'rm -rf "$D" "/verif/.alt/$(echo "$D/gtfs" | md5sum | cut -c1-10)"' EXIT
cp -r /repo "$D/gtfs"; rm -rf "$D/gtfs/.git/worktrees"
cd "$D/gtfs" || exit 2
name=$(basename "$SEED")
if ! git apply "$SEED/patch.diff" 2> "$D/apply.err"; then echo "RESULT $name: PATCH-DOES-NOT-APPLY $(head -c 300 "$D/apply.err")"; exit 2; fi
if ! go build ./... 2> "$D/build.err"; then echo "RESULT $name: DOES-NOT-COMPILE $(head -c 300 "$D/build.err")"; exit 2; fi
if ! go test -vet=off -count=1 $(go list ./... | grep -v /seeded) > "$D/test.out" 2>&1; then echo "RESULT $name: FAILS-REPO-TESTS"; exit 2; fi
if [ -f "$SEED/demo_test.go" ]; then
  mkdir -p seeded && cp "$SEED/demo_test.go" seeded/demo_test.go
  if ! go test -count=1 ./seeded/ > "$D/demo.out" 2>&1; then echo "RESULT $name: OWN-DEMO-FAILS-WITH-PATCH"; tail -5 "$D/demo.out"; fi
  rm -rf seeded
fi
CHECKS="$*"
if [ -z "$CHECKS" ]; then
  files=$(grep '^+++ b/' "$SEED/patch.diff" | sed 's#+++ b/##')
  fam=""
  for f in $files; do
    case "$f" in
      static.go|csv/*|warnings/*|enums.go|constants/*) fam="$fam C01 C03 C05 C06 C08 C09 C10 C11 C18";;
      realtime.go|hash.go) fam="$fam C02 C04 C05 C06 C07 C12 C13 C16 C17 C18";;
      extensions/*) fam="$fam C05 C06 C16 C17 C18 C02";;
      journal/*) fam="$fam C05 C14 C15 C19 C20 C18";;
    esac
  done
  CHECKS=$(echo $fam | tr ' ' '\n' | sort -u | tr '\n' ' ')
fi
echo "RESULT $name: CONFIRMED benign candidate; running: $CHECKS"
rc=0
cd /verif
for PROP in $CHECKS; do
  OUT=$(VERIF_REPO="$D/gtfs" VERIF_DIR=/verif ./check "$PROP" quick 2>&1); RC=$?
  if [ $RC -eq 0 ]; then echo "RESULT $name $PROP: SILENT"
  else echo "RESULT $name $PROP: ALARM (exit $RC) $(echo "$OUT" | grep -m1 'signature:' | cut -c14-200) | $(echo "$OUT" | grep -m1 'what:' | cut -c1-260)"; rc=1; fi
done
exit $rc
