#!/bin/bash
# tools/rebasepatch.sh <patch.diff> : re-bases a stored patch onto /repo HEAD with a 3-way apply in a scratch clone (under /tmp,
# removed afterwards) and rewrites the patch file in place; prints OK / CONFLICT.
P="$(readlink -f "$1")"
D=$(mktemp -d /tmp/rbp-XXXXXX)
trap 'rm -rf "$D"' EXIT
git clone -q /repo "$D/r" && cd "$D/r" || exit 2
if git apply --3way "$P" >/dev/null 2>"$D/err"; then
  if git diff --cached --quiet && git diff --quiet; then echo "EMPTY $P"; exit 1; fi
  git diff HEAD > "$P.new" && mv "$P.new" "$P" && echo "OK $P"
else
  echo "CONFLICT $P: $(head -c 300 "$D/err")"; exit 1
fi
