#!/opt/veriftools/pyvenv/bin/python3
"""Validates MANIFEST.json and every evidence file against the schemas."""
import json, glob, sys, jsonschema
ok = True
m = json.load(open('/verif/MANIFEST.json'))
try:
    jsonschema.validate(m, json.load(open('/root/.vp/MANIFEST.schema.json')))
except Exception as e:
    ok = False; print("MANIFEST invalid:", e)
es = json.load(open('/root/.vp/EVIDENCE.schema.json'))
for c in m['checks']:
    p = c['evidence_file']
    try:
        jsonschema.validate(json.load(open(p)), es)
    except Exception as e:
        ok = False; print(p, "invalid:", str(e)[:300])
print("valid" if ok else "INVALID")
sys.exit(0 if ok else 1)
