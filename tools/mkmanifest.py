#!/usr/bin/env python3
"""Regenerates /verif/MANIFEST.json from the table below (kept in one place so the manifest stays valid)."""
import json, os, sys

HERE = os.path.dirname(os.path.dirname(os.path.abspath(__file__)))

# id -> (category, technique, level text, level note, design ref)
CHECKS = {
    "C13": ("exploration",
            "reference-model monitor: recording hash.Hash + independent reflection-derived data key, two-way functional map over a mutant-closed population",
            "Every Trip.Hash/Vehicle.Hash call of the run is observed through a recording hash.Hash; the byte stream and an independently derived data key must determine each other over populations closed under all single-point mutations (found by reflection, so new fields are included). Exploration, not proof: it holds on the populations generated for the seed.",
            "Trusts the reflection walker's data key as injective and the ignore list taken from the statement (identity, zone presentation, in-message flags, Trip.Vehicle).",
            "DESIGN.md §3 C13"),
}

NOT_BUILT_REASON = "check not built yet in this round (design in DESIGN.md §3); no claim is made"

ALL = ["C%02d" % i for i in range(1, 21)]


def main():
    checks = []
    for pid in ALL:
        if pid not in CHECKS:
            continue
        cat, tech, text, note, ref = CHECKS[pid]
        checks.append({
            "property_id": pid,
            "quick_cmd": "./check %s quick" % pid,
            "thorough_cmd": "./check %s thorough" % pid,
            "evidence_file": "/verif/evidence/%s.json" % pid,
            "replay_cmd_template": "./check %s --replay {path}" % pid,
            "engine": "vmon",
            "level_claimed": {"category": cat, "text": text, "design_ref": ref},
            "level_note": note,
            "technique": tech,
        })
    na = [{"property_id": pid, "reason": NOT_BUILT_REASON} for pid in ALL if pid not in CHECKS]
    m = {
        "version": 1,
        "setup_cmd": "./setup.sh",
        "hooks": {
            "guard": "verif",
            "enable": "checks build the harness (and through its replace directive /repo's working tree) with `go build -tags verif`; no source file in /repo is guarded by the tag because no hook was needed",
            "baseline_off_cmd": "cd /repo && GOFLAGS=-mod=mod GOPROXY=off GOSUMDB=off GOTOOLCHAIN=local go test -vet=off -count=1 -timeout 25m ./...",
            "source_commits": [],
            "add_only": True,
        },
        "engines": [{
            "name": "vmon",
            "path": "/verif/harness",
            "serves_properties": [c["property_id"] for c in checks],
            "kind_free_text": "runtime monitoring: seeded workload generators drive the real library in child processes (one per shard, crash/hang attributed to the logged case); oracles are reference models, invariant walkers, metamorphic comparisons, the Go race detector, PROT_READ input pages and strace event logs",
        }],
        "checks": checks,
        "not_applicable": na,
        "notes": "Every check: exit 0 held / exit 1 with VIOLATION lines / exit 3 INCONCLUSIVE (watchdog, harness error, nothing observed). VERIF_SEED selects the case list; case lists are pure functions of (property, tier, seed).",
    }
    with open(os.path.join(HERE, "MANIFEST.json"), "w") as f:
        json.dump(m, f, indent=1)
        f.write("\n")


if __name__ == "__main__":
    main()
