#!/usr/bin/env python3
"""Regenerates /verif/MANIFEST.json from the table below (kept in one place so the manifest stays valid)."""
import json, os, sys

HERE = os.path.dirname(os.path.dirname(os.path.abspath(__file__)))

# id -> (category, technique, level text, level note, design ref)
CHECKS = {
    "C01": ("exploration",
            "reference-model monitor: generated abstract feed rendered under random byte presentations, ParseStatic result compared field by field (reflection dump) with an independent transcription; metamorphic equality across presentations",
            "Every returned *Static of the run is compared, through a dump of all exported fields with pointers followed, with a transcription of the abstract model that never touches CSV; 5 (quick) to 9 (thorough) presentations per model, large models on both sides of slice-growth thresholds. Exploration over seeded models, not a proof over all feeds.",
            "Trusts the reference transcription (sgen.Ref), the CSV/zip renderer of the harness and the zone-aware midnight oracle (days without a unique local midnight are skipped and counted).",
            "DESIGN.md §3 C01"),
    "C02": ("exploration",
            "reference-model monitor: conflict-free protobuf messages (protobuf-go as wire encoder), ParseRealtime result vs independent transcription of the message, under 12 timezone options",
            "Every surfaced field of every parse is compared with a transcription of the generated message (one value per field, boundary classes for numbers and floats, unrelated NYCT extension payloads attached). Exploration over seeded messages x zones.",
            "Trusts protobuf-go as the wire encoder and the reference (rgen.Ref). Links (C04), informed-entity normalisation (C12) and vehicle order (C06) are excluded here.",
            "DESIGN.md §3 C02"),
    "C03": ("exploration",
            "invariant walker over live results: pointer identity against the top-level slices, id named in the tagged source row, step-bounded forest walk, Root() cross-check; workload = random corruptions of valid feeds",
            "Each returned *Static (valid and corrupted feeds, both option values, large feeds across slice growth) is walked at the API boundary; every row carries a unique tag so entities map back to rows even with duplicate ids. Exploration: held on the archives generated.",
            "Trusts the tag mapping (free-text columns are transcribed verbatim, C01's subject). Absent optional references are always accepted.",
            "DESIGN.md §3 C03"),
    "C04": ("exploration",
            "invariant monitor over an enumerated space: every way of expressing a trip-vehicle association x vehicle identity x entity permutation, plus random feeds; link targets compared by content with the top-level entries",
            "The small space (1-2 pairs quick, 1-3 thorough; 21 combinations per pair; all permutations up to 5 entities) is enumerated completely and every parse is checked for presence, mutuality and content of both links; random larger feeds add bystanders. Exhaustive for the small space, exploration beyond.",
            "Trusts the harness's association table (built constructively). Content equality, not pointer identity, is demanded, as in the statement.",
            "DESIGN.md §3 C04"),
    "C05": ("exploration",
            "crash/hang monitor: child process per shard, case index logged before each case, recover() for panics, exit status for fatal errors, CPU-time budget for non-termination (re-run alone), structure-aware mutational workloads; thorough repeats on the -race build (checkptr)",
            "Observes process behaviour of every exported entry point on hostile inputs of three corpora under all 30 extension configurations, including all accessors on returned results and journal building/export over parsed feeds. 'Terminates' is monitored as bounded progress (60 CPU-seconds alone). Exploration.",
            "A purely blocking hang without CPU use would only surface as inconclusive (wall-clock watchdog); resource exhaustion proportional to input is out of scope by the statement.",
            "DESIGN.md §3 C05"),
    "C06": ("exploration",
            "metamorphic monitor: repeated / history / equivalent-option / cross-process (and second-toolchain) parses of the same bytes must give identical ordered dumps; inputs served from PROT_READ pages (write = fault) and hashed before/after",
            "Inputs are built so that every map-built output has >= 5 elements; 8-16 repeats, an A,B,A,C,A,B,C,A history with ONE reused options/extension object per configuration (30 configurations), 2-3 separate processes per case list (thorough: one built with go1.26.8). Exploration with a quantified miss probability for random orders.",
            "Order-only differences are reported once per collection (C06|order-varies|...). Trusts the canonical dump to render every exported field.",
            "DESIGN.md §3 C06"),
    "C07": ("exploration",
            "metamorphic monitor over entity permutations (all n! up to 5/6 entities, sampled above) plus uniqueness/sortedness/strict-weak-order invariants on conflict-free and deliberately conflicting messages; own-entity-wins via the reference model",
            "Every permutation's parse is compared with the base order (trips in result order, vehicles as a multiset, links by content, alerts in relative feed order) and with the reference transcription. Exploration.",
            "Trusts exported TripID.Less as the identifier order (itself checked to be a strict weak order on observed identifiers).",
            "DESIGN.md §3 C07"),
    "C08": ("exploration",
            "reference order from the model + metamorphic equality across 8 row orders of stop_times.txt/shapes.txt + direct ascending-order invariants; large interleavings",
            "Every parse under every row order must equal the expected order (file order, ascending sequence, shapes by id) and all must equal each other. Exploration.",
            "Services compared order-normalised (C06 owns their order).",
            "DESIGN.md §3 C08"),
    "C09": ("exploration",
            "metamorphic inertness monitor over an enumerated matrix (rejection cause x file x position) + offline warning checker against the rendered file",
            "For each model the full matrix (about 70 cells x 5 positions) is walked; parse(M + bad rows) must equal parse(M) without warnings, and every reported warning must carry the file, 1-based row number and exact cells of an injected row. The matrix is enumerated; models are sampled.",
            "Only causes the statement calls 'rejected' are injected. A warning is never demanded, only checked when present.",
            "DESIGN.md §3 C09"),
    "C10": ("exploration",
            "metamorphic monitor: each default-bearing column respelled alone (blank / absent / mixture) and in combinations must parse like the explicit default; reference model for fill-in and inheritance; option off/on differential",
            "All 16 default-bearing columns x applicable spellings per model, both option values, plus reference comparison of one-sided stop times and inherited wheelchair values. Exploration over seeded models.",
            "Inheritance through non-station parents or through an unspecified parent station with its own parent is left open (either value accepted).",
            "DESIGN.md §3 C10"),
    "C11": ("exploration",
            "reference-model monitor: calendar/calendar_dates merge model with zone-aware midnight oracle, 6 zones per model, invalid rows injected, direct range/uniqueness invariants",
            "Static.Services of every parse is compared with the reference merge; exception rows before/inside/after the range, duplicates, ignored types, invalid rows that must not create or alter a service. Exploration.",
            "Days without a unique local midnight are generated, not asserted, counted. Service order not asserted (C06).",
            "DESIGN.md §3 C11"),
    "C12": ("exploration",
            "reference-model monitor: exhaustive single-selector space (1584 selectors) + random multi-selector alerts vs a normalisation model written from the statement",
            "The whole single-selector presence space is enumerated; random alerts of 2-8 selectors hit the interactions (two derived routes, explicit route suppressing a derived one, identifiable trip beside route-only descriptors). Kept selectors must appear in order; derived route entities as a set.",
            "For non-identifying descriptors with a route plus start time/date the derived route entity is accepted but not demanded (statement says 'only a route').",
            "DESIGN.md §3 C12"),
    "C13": ("exploration",
            "reference-model monitor: recording hash.Hash + independent reflection-derived data key, two-way functional map over a mutant-closed population",
            "Every Trip.Hash/Vehicle.Hash call of the run is observed through a recording hash.Hash; the byte stream and an independently derived data key must determine each other over populations closed under all single-point mutations (found by reflection, so new fields are included). Exploration, not proof: it holds on the populations generated for the seed.",
            "Trusts the reflection walker's data key as injective and the ignore list taken from the statement (identity, zone presentation, in-message flags, Trip.Vehicle).",
            "DESIGN.md §3 C13"),
    "C14": ("exploration",
            "online trace checker: BuildJournal run on every prefix of a generated history, transition invariants between consecutive prefixes; exhaustive small histories",
            "Histories are rendered as NYCT protobuf and parsed by the real ParseRealtime; after each feed the checker validates tail = update, head = unchanged prefix marked past, alignment to an occurrence of the first stop, and the rules for absent trips and ignored updates. All histories of <= 2 (quick) / <= 3 (thorough) feeds over lists of length <= 3 on {A,B,C} are enumerated.",
            "Where the statement leaves the alignment open (repeated stop, unknown first stop, empty update) any retained prefix is accepted.",
            "DESIGN.md §3 C14"),
    "C15": ("exploration",
            "reference-model monitor: direct replay of the parsed history (reference journal) vs BuildJournal under 10 windows and for every prefix",
            "Selection (assigned, closed window), order, uniqueness, identifier fields, vehicle id, update count, last-observed and marked-past times are compared for every history x window. Exploration over seeded histories.",
            "Stop-time lists are C14's; NumScheduleChanges/Rewrites are not in the statement.",
            "DESIGN.md §3 C15"),
    "C16": ("exploration",
            "reference rules + differential monitor: exhaustive origin times (600000 ids), exhaustive rule table x 4 option combinations, mixed feeds with/without extension and swap-involution check",
            "Origin-time and rule-table sub-spaces are enumerated completely in both tiers; mixed random feeds check that entities without NYCT data parse exactly as without extension up to the documented M-train swap (modelled independently), and that applying the extension to the swapped feed returns the original.",
            "Directions other than NORTH/SOUTH are generated but not asserted.",
            "DESIGN.md §3 C16"),
    "C17": ("exploration",
            "reference-model + differential monitor: elevator grouping model and Mercury mapping table vs ParseRealtime under all 24 option combinations, with entity permutations; plain alerts vs no-extension parse",
            "Every feed is parsed in two entity orders under all 24 configurations with a fresh extension value; elevator output alerts compared as a set keyed by documented id with exact stop sets; other alerts compared with the no-extension parse plus the documented modifications.",
            "When Mercury priorities of one alert disagree any mapped effect is accepted.",
            "DESIGN.md §3 C17"),
    "C18": ("exploration",
            "Go race detector (-race build, halt_on_error=0, log parsed and de-duplicated by gtfs frame pair) over concurrent parses sharing one options value and PROT_READ inputs; per-call equality with the sequential baseline; logical-clock overlap log",
            "2-32 goroutines per case parse shared inputs with ONE shared options/extension value under 12 configurations, then read each other's results concurrently (hash, Root, dump, CSV export). The happens-before detector flags unsynchronised pairs that executed; the evidence reports how many call pairs actually overlapped.",
            "A race on a path no case reaches is not seen. Race reports without a gtfs frame are harness errors (inconclusive).",
            "DESIGN.md §3 C18"),
    "C19": ("fault_enumeration",
            "fault enumeration over directory contents (nine entry kinds, all directories up to 3/4 entries) against a sorted-good-files model; real CLI runs; strace as syscall observer and as read-fault injector (EIO) with an offline log checker",
            "Every directory of 1-3 (quick) / 1-4 (thorough) entries over the nine kinds is built on the real filesystem and replayed through DirectoryGtfsrtSource (step-bounded), plus random directories with hostile names, CLI runs and strace runs that make chosen files unreadable mid-stream.",
            "'Good' is decided by the harness calling ParseRealtime with the source's options. Permission faults cannot be produced as root; EIO injection stands in for unreadable files.",
            "DESIGN.md §3 C19"),
    "C20": ("exploration",
            "round-trip monitor: ExportToCsv output re-read with encoding/csv under the header names and compared cell by cell with the journal; before/after dump; repeat-export equality",
            "Directly constructed journals cover every presence pattern and odd-but-legal strings and times; every 4th case exports a journal built from a generated history.",
            "Strings are free of comma, double quote, CR, LF as the statement requires.",
            "DESIGN.md §3 C20"),
}

NOT_BUILT_REASON = "check not built yet in this round (design in DESIGN.md §3); no claim is made"

ALL = ["C%02d" % i for i in range(1, 21)]


def main():
    checks = []
    for pid in ALL:
        if pid not in CHECKS:
            continue
        cat, tech, text, note, ref = CHECKS[pid]
        checks.append({
            "property_id": pid,
            "quick_cmd": "./check %s quick" % pid,
            "thorough_cmd": "./check %s thorough" % pid,
            "evidence_file": "/verif/evidence/%s.json" % pid,
            "replay_cmd_template": "./check %s --replay {path}" % pid,
            "engine": "vmon",
            "level_claimed": {"category": cat, "text": text, "design_ref": ref},
            "level_note": note,
            "technique": tech,
        })
    na = [{"property_id": pid, "reason": NOT_BUILT_REASON} for pid in ALL if pid not in CHECKS]
    m = {
        "version": 1,
        "setup_cmd": "./setup.sh",
        "hooks": {
            "guard": "verif",
            "enable": "checks build the harness (and through its replace directive /repo's working tree) with `go build -tags verif`; no source file in /repo is guarded by the tag because no hook was needed",
            "baseline_off_cmd": "cd /repo && GOFLAGS=-mod=mod GOPROXY=off GOSUMDB=off GOTOOLCHAIN=local go test -vet=off -count=1 -timeout 25m ./...",
            "source_commits": [],
            "add_only": True,
        },
        "engines": [{
            "name": "vmon",
            "path": "/verif/harness",
            "serves_properties": [c["property_id"] for c in checks],
            "kind_free_text": "runtime monitoring: seeded workload generators drive the real library in child processes (one per shard, crash/hang attributed to the logged case); oracles are reference models, invariant walkers, metamorphic comparisons, the Go race detector, PROT_READ input pages and strace event logs",
        }],
        "checks": checks,
        "not_applicable": na,
        "notes": "Every check: exit 0 held / exit 1 with VIOLATION lines / exit 3 INCONCLUSIVE (watchdog, harness error, nothing observed). VERIF_SEED selects the case list; case lists are pure functions of (property, tier, seed). Besides seeded random cases every workload sweeps the sizes of the collections it controls over a threshold list (2^k, 3*2^k, 10^k, each -1/0/+1) and mixes in rare boundary values (DESIGN.md 8.4). Calibration: tools/mutcheck.sh, tools/seedcheck.sh, tools/seedall.sh against /verif/mutants and the 80 independently seeded changes in /verif/seeded (results in seeded/RESULTS.md).",
    }
    with open(os.path.join(HERE, "MANIFEST.json"), "w") as f:
        json.dump(m, f, indent=1)
        f.write("\n")


if __name__ == "__main__":
    main()
