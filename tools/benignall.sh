#!/bin/bash
# tools/benignall.sh [jobs] — re-runs every property-preserving change in /verif/benign against the quick checks of the
# family that exercises the files it touches and writes /verif/benign/RESULTS.md (regression run after generator changes).
cd "$(dirname "$0")/.."
J="${1:-2}"
ls -d benign/*/ | sed 's#benign/##; s#/##' | xargs -P "$J" -I{} sh -c 'tools/benigncheck.sh benign/{} 2>&1 | grep "^RESULT" | grep -v CONFIRMED' | sort > /tmp/benignall.$$
{ echo "# Property-preserving changes vs the quick checks of the touched family"; echo; echo '```'; cat /tmp/benignall.$$; echo '```'; echo; echo "silent: $(grep -c SILENT /tmp/benignall.$$) / $(wc -l < /tmp/benignall.$$)"; } > benign/RESULTS.md
rm -f /tmp/benignall.$$
tail -2 benign/RESULTS.md
