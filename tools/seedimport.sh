#!/bin/bash
# tools/seedimport.sh <worktree> <id> <checks...> : copies <worktree>/seeded into /verif/seeded/<id> (patch.diff, demo_test.go, meta.json),
# confirms the change and runs the named checks against it; appends the outcome to /verif/seeded/<id>/ran.txt
WT="$1"; ID="$2"; shift 2
mkdir -p /verif/seeded/$ID
cp "$WT/seeded/patch.diff" "$WT/seeded/demo_test.go" /verif/seeded/$ID/ 2>/dev/null
cp "$WT/seeded/meta.json" /verif/seeded/$ID/meta.agent.json 2>/dev/null
/verif/tools/seedcheck.sh /verif/seeded/$ID "$@" 2>&1 | tee /verif/seeded/$ID/ran.txt
