#!/bin/bash
# tools/seedcheck.sh <seed-dir> <property> [more properties...]
# <seed-dir> holds patch.diff and demo_test.go (package seeded). The script
#  1. confirms the seeded change on a scratch copy of /repo (under /tmp, removed afterwards):
#     applies, compiles, the repository's own tests pass, the demonstration fails with it and passes without it;
#  2. runs the named checks (quick tier) against the patched scratch copy and reports CAUGHT / MISSED per check.
# Prints one RESULT line per step; exit 0 when the change is confirmed and every named check caught it.
set -u
SEED="$(readlink -f "$1")"; shift
export GOFLAGS=-mod=mod GOPROXY=off GOSUMDB=off GOTOOLCHAIN=local
D=$(mktemp -d /tmp/sc-XXXXXX)
trap 'rm -rf "$D" "/verif/.alt/$(echo "$D/gtfs" | md5sum | cut -c1-10)"' EXIT
cp -r /repo "$D/gtfs"; rm -rf "$D/gtfs/.git/worktrees"
cd "$D/gtfs" || exit 2
mkdir -p seeded && cp "$SEED/demo_test.go" seeded/demo_test.go
name=$(basename "$SEED")
# without the patch: demo passes
if ! go test -count=1 ./seeded/ > "$D/demo-clean.out" 2>&1; then echo "RESULT $name: DEMO-FAILS-ON-CLEAN-TREE"; tail -5 "$D/demo-clean.out"; exit 2; fi
if ! git apply "$SEED/patch.diff" 2> "$D/apply.err"; then echo "RESULT $name: PATCH-DOES-NOT-APPLY $(head -c 300 "$D/apply.err")"; exit 2; fi
if ! go build ./... 2> "$D/build.err"; then echo "RESULT $name: DOES-NOT-COMPILE $(head -c 300 "$D/build.err")"; exit 2; fi
if ! go test -vet=off -count=1 $(go list ./... | grep -v /seeded) > "$D/test.out" 2>&1; then echo "RESULT $name: FAILS-REPO-TESTS"; grep -E "^(--- FAIL|FAIL)" "$D/test.out" | head -5; exit 2; fi
if go test -count=1 ./seeded/ > "$D/demo-patched.out" 2>&1; then echo "RESULT $name: DEMO-PASSES-WITH-PATCH (change not demonstrated)"; exit 2; fi
echo "RESULT $name: CONFIRMED (compiles, repo tests pass, demo fails with patch and passes without)"
rm -rf seeded
rc=0
cd /verif
for PROP in "$@"; do
  TIER=quick
  case "$PROP" in *:thorough) TIER=thorough; PROP="${PROP%%:*}";; esac
  OUT=$(VERIF_REPO="$D/gtfs" VERIF_DIR=/verif ./check "$PROP" "$TIER" 2>&1); RC=$?
  if [ $RC -eq 1 ]; then
    echo "RESULT $name $PROP $TIER: CAUGHT $(echo "$OUT" | grep -c '^VIOLATION') signature(s); first: $(echo "$OUT" | grep -m1 'signature:' | cut -c14-170)"
  else
    echo "RESULT $name $PROP $TIER: MISSED (exit $RC) $(echo "$OUT" | tail -1 | cut -c1-160)"; rc=1
  fi
done
exit $rc
