#!/bin/bash
# tools/benignimport.sh <worktree> <id> [checks...] : copies <worktree>/seeded into /verif/benign/<id> and runs tools/benigncheck.sh on it
WT="$1"; ID="$2"; shift 2
mkdir -p /verif/benign/$ID
cp "$WT/seeded/patch.diff" "$WT/seeded/demo_test.go" /verif/benign/$ID/ 2>/dev/null
cp "$WT/seeded/meta.json" /verif/benign/$ID/meta.agent.json 2>/dev/null
/verif/tools/benigncheck.sh /verif/benign/$ID "$@" 2>&1 | tee /verif/benign/$ID/ran.txt
