#!/bin/bash
# tools/mutcheck.sh <patch> <property> [tier]
# Calibration: applies a patch to a scratch copy of /repo (under /tmp, removed afterwards), requires that the
# copy still compiles and passes the repository's own tests, then runs the property's check against the copy
# and reports whether it raised a VIOLATION.
set -u
PATCH="$(readlink -f "$1")"; PROP="$2"; TIER="${3:-quick}"
export GOFLAGS=-mod=mod GOPROXY=off GOSUMDB=off GOTOOLCHAIN=local
D=$(mktemp -d /tmp/mut-XXXXXX)
trap 'rm -rf "$D" "/verif/.alt/$(echo "$D/gtfs" | md5sum | cut -c1-10)"' EXIT
cp -r /repo "$D/gtfs"
cd "$D/gtfs" || exit 2
if ! git apply "$PATCH" 2> "$D/apply.err"; then echo "RESULT $(basename $PATCH) $PROP: PATCH-DOES-NOT-APPLY $(head -c 200 $D/apply.err)"; exit 2; fi
if ! go build ./... 2> "$D/build.err"; then echo "RESULT $(basename $PATCH) $PROP: DOES-NOT-COMPILE $(head -c 300 $D/build.err)"; exit 2; fi
if ! go test -vet=off -count=1 ./... > "$D/test.out" 2>&1; then echo "RESULT $(basename $PATCH) $PROP: FAILS-REPO-TESTS (not a valid mutant)"; grep -E "^(--- FAIL|FAIL)" "$D/test.out" | head -5; exit 2; fi
cd /verif
OUT=$(VERIF_REPO="$D/gtfs" VERIF_DIR=/verif ./check "$PROP" "$TIER" 2>&1); RC=$?
SIGS=$(echo "$OUT" | grep -c "^VIOLATION")
FIRST=$(echo "$OUT" | grep -m1 "signature:" | cut -c1-160)
if [ $RC -eq 1 ]; then echo "RESULT $(basename $PATCH) $PROP: CAUGHT ($SIGS signatures) $FIRST"; exit 0; fi
echo "RESULT $(basename $PATCH) $PROP: MISSED (exit $RC) $(echo "$OUT" | tail -1 | cut -c1-200)"; exit 1
