#!/bin/bash
# tools/runall.sh [tier] [seed] — runs every registered check once, prints one line per check.
cd "$(dirname "$0")/.."
TIER="${1:-quick}"; export VERIF_SEED="${2:-1}"
fail=0
for id in $(python3 -c "import json;print(' '.join(c['property_id'] for c in json.load(open('MANIFEST.json'))['checks']))"); do
  s=$(date +%s.%N)
  out=$(./check $id $TIER 2>&1); rc=$?
  e=$(date +%s.%N)
  printf "%s rc=%d %.1fs  %s\n" $id $rc $(echo "$e - $s" | bc) "$(echo "$out" | tail -1 | cut -c1-170)"
  if [ $rc -ne 0 ]; then fail=1; echo "$out" | grep -E "^(VIOLATION|INCONCLUSIVE|KNOWN|BUILD)" | head -5; fi
done
exit $fail
