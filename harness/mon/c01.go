package mon

import (
	"fmt"

	"github.com/jamespfennell/gtfs"

	"verifharness/canon"
	"verifharness/core"
	"verifharness/sgen"
)

// largeSizes sit on both sides of slice-growth thresholds of the result slices.
var largeSizes = []sgen.Size{
	{Agencies: 2, Routes: 63, Stops: 63, Transfers: 65, Calendars: 63, CalDates: 65, Shapes: 63, ShapePtsPer: 9, Trips: 63, Freqs: 70, StopTimesPer: 17, Exact: true},
	{Agencies: 3, Routes: 64, Stops: 64, Transfers: 64, Calendars: 64, CalDates: 64, Shapes: 64, ShapePtsPer: 8, Trips: 64, Freqs: 64, StopTimesPer: 16, Exact: true},
	{Agencies: 2, Routes: 65, Stops: 65, Transfers: 63, Calendars: 65, CalDates: 63, Shapes: 65, ShapePtsPer: 7, Trips: 65, Freqs: 63, StopTimesPer: 15, Exact: true},
	{Agencies: 1, Routes: 129, Stops: 1023, Transfers: 300, Calendars: 20, CalDates: 300, Shapes: 129, ShapePtsPer: 33, Trips: 1023, Freqs: 10, StopTimesPer: 5, Exact: true},
	{Agencies: 1, Routes: 128, Stops: 1024, Transfers: 300, Calendars: 20, CalDates: 300, Shapes: 128, ShapePtsPer: 32, Trips: 1024, Freqs: 10, StopTimesPer: 5, Exact: true},
	{Agencies: 1, Routes: 127, Stops: 1025, Transfers: 300, Calendars: 20, CalDates: 300, Shapes: 127, ShapePtsPer: 31, Trips: 1025, Freqs: 10, StopTimesPer: 5, Exact: true},
	{Agencies: 1, Routes: 3, Stops: 40, Transfers: 3, Calendars: 2, CalDates: 3, Shapes: 2, ShapePtsPer: 2000, Trips: 12, Freqs: 2, StopTimesPer: 2500, Exact: true},
	{Agencies: 2, Routes: 10, Stops: 300, Transfers: 10, Calendars: 5, CalDates: 10, Shapes: 5, ShapePtsPer: 100, Trips: 400, Freqs: 5, StopTimesPer: 120, Exact: true},
}

func c01Counts(tier string) (bulk, large, pres int) {
	if tier == "thorough" {
		return 100000, 40, 8
	}
	return 300, 8, 4
}

func init() {
	core.Register(&core.Property{
		ID:    "C01",
		Level: "exploration",
		Rule: "each case draws a well-formed abstract feed (unique nasty-but-legal ids, all references resolvable, every default-bearing field explicit, H:MM:SS up to 99h, dates 1970-2099, 14 agency zones) and renders it under a plain and several random byte presentations (column permutation, unknown/near-miss extra columns, extra zip members, member order, Store/Deflate, BOM, CRLF, trailing newline, quoting style); a few cases per run are large models on both sides of slice-growth thresholds; " +
			"distinct_nontrivial counts distinct (row-count vector, first-agency zone) signatures of models with at least one trip and one stop time",
		Cases: func(tier string) int { b, l, _ := c01Counts(tier); return b + l },
		Run:   runC01,
		Assumptions: []string{
			"the reference transcription (sgen.Ref) is written from the GTFS/README documentation and shares no code with the parser; it never reads CSV",
			"civil dates without a unique local midnight in the agency zone are generated but their instants are not asserted (counted under skipped)",
			"ScheduledStopTime.Trip is not compared (no property speaks about it)",
			"the order of Static.Services is not asserted here (C06 owns it)",
		},
	})
}

func runC01(c *core.Ctx) {
	_, nLarge, nPres := c01Counts(c.Tier)
	var m *sgen.Model
	if c.Thorough() && c.Index == nLarge-1 {
		// 80 trips x 2500 stop times = 200 000 rows
		m = sgen.Gen(c.R, sgen.Size{Agencies: 1, Routes: 3, Stops: 60, Transfers: 3, Calendars: 2, CalDates: 3, Shapes: 2, ShapePtsPer: 100, Trips: 80, Freqs: 2, StopTimesPer: 2500, Exact: true})
		c.Feature("very-large-model-200k-stop-times")
		nPres = 1
	} else if c.Index < nLarge {
		sz := largeSizes[c.Index%len(largeSizes)]
		m = sgen.Gen(c.R, sz)
		c.Feature("large-model")
		nPres = 2
	} else {
		m = sgen.Gen(c.R, sgen.SmallSize)
	}
	if len(m.Trips) > 0 && len(m.StopTimes) > 0 {
		c.Shape(m.ShapeSig())
	}
	c.Feature("zone:" + m.Agencies[0].TZ)
	ref := sgen.Ref(m, false)
	if ref.SkippedDates > 0 {
		c.S.Skipped["dates-without-unique-local-midnight"] += int64(ref.SkippedDates)
	}
	arch := sgen.Tables(m)
	ref.Neutralize(ref.Static, m)
	want := canon.DumpStatic(ref.Static, false, false)

	var first string
	for k := 0; k <= nPres; k++ {
		p := &sgen.Presentation{Plain: k == 0, R: c.R.Fork()}
		b := sgen.Encode(arch, p)
		got, err := gtfs.ParseStatic(b, gtfs.ParseStaticOptions{})
		c.Eval(1)
		for f, n := range p.Used {
			c.FeatureN("presentation:"+f, n)
		}
		if err != nil {
			c.Violationf("C01|parse-error", map[string]any{"error": err.Error(), "presentation": p.UsedString(), "zip_hex": fmt.Sprintf("%x", truncBytes(b, 4000))},
				"ParseStatic rejected a well-formed feed: %v (presentation: %s)", err, p.UsedString())
			continue
		}
		raw := canon.DumpStatic(got, false, false)
		c.Cmp(1)
		if k == 0 {
			first = raw
		} else if path, desc, differ := diffPath(first, raw); differ {
			c.Violationf("C01|presentation-dependent|"+path, map[string]any{"presentation": p.UsedString(), "diff": desc, "zip_hex": fmt.Sprintf("%x", truncBytes(b, 4000))},
				"result depends on the byte presentation (%s): %s", p.UsedString(), desc)
		}
		ref.Neutralize(got, m)
		have := canon.DumpStatic(got, false, false)
		c.Cmp(1)
		if path, desc, differ := diffPath(want, have); differ {
			c.Violationf("C01|mismatch|"+path, map[string]any{"presentation": p.UsedString(), "diff_expected_vs_parsed": desc, "zip_hex": fmt.Sprintf("%x", truncBytes(b, 4000))},
				"parsed feed differs from the rows written (expected ≠ parsed): %s", desc)
		}
		if k == 1 && c.WantSample() {
			c.Sample(map[string]any{"model_shape": m.ShapeSig(), "presentation": p.UsedString(), "zip_bytes": len(b),
				"tables": sampleTables(arch, 3)})
		}
	}
}

// sampleTables renders the first rows of each table for the evidence file.
func sampleTables(a *sgen.Archive, maxRows int) map[string]any {
	out := map[string]any{}
	for _, t := range a.Tables {
		rows := t.Rows
		if len(rows) > maxRows {
			rows = rows[:maxRows]
		}
		out[t.Name] = map[string]any{"header": t.Header, "first_rows": rows, "rows": len(t.Rows)}
	}
	return out
}
