package mon

import (
	"bytes"
	"fmt"
	"os"
	"os/exec"
	"path/filepath"
	"regexp"
	"sort"
	"strings"
	"time"

	"github.com/jamespfennell/gtfs"
	"github.com/jamespfennell/gtfs/extensions/nycttrips"
	"github.com/jamespfennell/gtfs/journal"

	"verifharness/canon"
	"verifharness/core"
	"verifharness/hgen"
	"verifharness/rgen"
)

var c19Kinds = []string{"good", "empty-file", "truncated-good", "random-bytes", "sub-directory", "dangling-symlink", "symlink-loop", "symlink-to-good", "deleted-after-listing"}

func c19Counts(tier string) (enumerated, random, cli, strace int) {
	n := len(c19Kinds)
	if tier == "thorough" {
		return n + n*n + n*n*n + n*n*n*n, 30000 + 2*len(c19RunSizes(tier)), 600, 150
	}
	return n + n*n + n*n*n, 1200 + 2*len(c19RunSizes(tier)), 24, 10
}

// c19RunSizes: lengths of runs of consecutive bad (or good) entries swept over the threshold list.
func c19RunSizes(tier string) []int {
	var out []int
	max := 1100
	if tier == "thorough" {
		max = 4200
	}
	for _, n := range core.Thresholds(max) {
		if n >= 15 {
			out = append(out, n)
		}
	}
	return out
}

func init() {
	core.Register(&core.Property{
		ID:    "C19",
		Level: "fault_enumeration",
		Rule: "fault enumeration over directory contents: ALL directories of 1-3 (quick) / 1-4 (thorough) entries over nine entry kinds {good feed, empty file, truncated good feed, random bytes, sub-directory (holding a good feed), dangling symlink, symlink loop, symlink to a good file, file deleted after the source listed the directory} in every position, plus random directories of up to 12/40 entries with hostile names (blanks, non-ASCII, leading dot or dash, 255-byte names, 10 vs 9, upper/lower case); Next() is called until nil (step-bounded) and three more times; a subset is replayed through the real CLI binary (`gtfs journal`) and through the CLI under strace, both as observer (openat/read per file) and as fault injector (reads of chosen files fail with EIO); " +
			"distinct_nontrivial counts distinct (sequence of entry kinds in name order) signatures",
		Cases: func(tier string) int { a, b, cc, d := c19Counts(tier); return a + b + cc + d },
		Run:   runC19,
		Assumptions: []string{
			"whether a file is 'good' is decided by the harness calling ParseRealtime itself with the options the source uses (NYCT trips extension, stale filtering on)",
			"FIFOs and other blocking special files are not 'files that cannot be read' and are not generated; permission-denied cannot be produced because the sandbox runs as root",
			"the CLI uses the window [1970, now]; generated trips start in 2023",
		},
		MaxShards: 16,
	})
}

func c19Opts() *gtfs.ParseRealtimeOptions {
	return &gtfs.ParseRealtimeOptions{Extension: nycttrips.Extension(nycttrips.ExtensionOpts{FilterStaleUnassignedTrips: true, PreserveMTrainPlatformsInBushwick: false})}
}

// c19GoodFeed renders a good feed. Header timestamps come from a set of three
// values per directory, so good files that are adjacent in name order often
// carry the same timestamp (and sometimes the same trips) as their neighbour.
func c19GoodFeed(r *core.Rand, k int) []byte {
	t := uint64(1700000000 + 100*(k%2))
	if r.Chance(1, 4) {
		t = 1700000000
	}
	var trips []hgen.TripState
	n := 1 + r.Intn(3)
	for i := 0; i < n; i++ {
		var ups []hgen.Update
		for s := 0; s < 1+r.Intn(4); s++ {
			a := int64(t) + int64(600*(s+1))
			ups = append(ups, hgen.Update{Stop: fmt.Sprintf("%s%02dN", core.Pick(r, []string{"A", "L", "M"}), (k+s)%40), Arr: &a, Dep: &a})
		}
		trips = append(trips, hgen.TripState{ID: fmt.Sprintf("%06d_A..N%02d", (60000+137*i)%144000, i), Date: "20231114", Route: "A", Assigned: !r.Chance(1, 6), Train: fmt.Sprintf("TR %d", i), Updates: ups})
	}
	f := hgen.Feed{T: t, Trips: trips}
	return rgen.Marshal(f.Message())
}

type c19Entry struct {
	name string
	kind string
}

// The last names are not valid UTF-8 (legal file names on Linux): Latin-1 bytes, a lone continuation byte, a truncated sequence.
var hostileNames = []string{"a b", " lead", "trail ", "é", "日本.pb", ".hidden", "-dash", "--", "10", "9", "09", "A", "a", "Z", "~tilde", "x\ty", "q'uote", "semi;colon", strings.Repeat("n", 255), "file.pb", "FILE.pb", "0", "00", "!",
	"caf\xe9.pb", "\xff", "\x80abc", "feed-\xc3.pb", "back\\slash", "new\nline", "star*", "..."}

// c19Materialise creates the directory; returns the entries in creation order and the names to delete after listing.
func c19Materialise(r *core.Rand, dir string, entries []c19Entry) (deleteLater []string, err error) {
	if err = os.MkdirAll(dir, 0755); err != nil {
		return
	}
	goodCount := 0
	var firstGood string
	for i, e := range entries {
		p := filepath.Join(dir, e.name)
		switch e.kind {
		case "good":
			err = os.WriteFile(p, c19GoodFeed(r, i), 0644)
			if r.Chance(1, 4) {
				// modification times say nothing about readability: far future (a collector whose clock runs ahead), the epoch, just now
				mt := core.Pick(r, []time.Time{time.Now().Add(24 * time.Hour), time.Date(2100, 1, 1, 0, 0, 0, 0, time.UTC), time.Unix(86400, 0), time.Now().Add(2 * time.Second)})
				os.Chtimes(p, mt, mt)
			}
			goodCount++
			if firstGood == "" {
				firstGood = e.name
			}
		case "empty-file":
			err = os.WriteFile(p, nil, 0644)
		case "truncated-good":
			b := c19GoodFeed(r, i)
			err = os.WriteFile(p, b[:1+r.Intn(len(b)-1)], 0644)
		case "random-bytes":
			b := make([]byte, 1+r.Intn(200))
			for k := range b {
				b[k] = byte(r.Intn(256))
			}
			err = os.WriteFile(p, b, 0644)
		case "sub-directory":
			if err = os.Mkdir(p, 0755); err == nil {
				err = os.WriteFile(filepath.Join(p, "inner"), c19GoodFeed(r, 500+i), 0644)
			}
		case "dangling-symlink":
			err = os.Symlink(filepath.Join(dir, "does-not-exist-"+e.name), p)
		case "symlink-loop":
			err = os.Symlink(p, p)
		case "symlink-to-good":
			// points at a good feed stored outside the directory so that the target is not listed itself
			target := filepath.Join(filepath.Dir(dir), filepath.Base(dir)+"-target-"+fmt.Sprint(i))
			if err = os.WriteFile(target, c19GoodFeed(r, 300+i), 0644); err == nil {
				err = os.Symlink(target, p)
			}
		case "deleted-after-listing":
			err = os.WriteFile(p, c19GoodFeed(r, i), 0644)
			deleteLater = append(deleteLater, p)
		}
		if err != nil {
			return
		}
	}
	return
}

func c19Cleanup(dir string) {
	os.RemoveAll(dir)
	matches, _ := filepath.Glob(dir + "-target-*")
	for _, m := range matches {
		os.Remove(m)
	}
}

// c19Expected parses, in lexicographic name order, every entry that can be read and parsed.
func c19Expected(dir string, names []string, skip map[string]bool) (dumps []string, feeds []*gtfs.Realtime, goodNames []string) {
	sorted := append([]string(nil), names...)
	sort.Strings(sorted)
	for _, n := range sorted {
		if skip[n] {
			continue
		}
		b, err := os.ReadFile(filepath.Join(dir, n))
		if err != nil {
			continue
		}
		rt, err := gtfs.ParseRealtime(b, c19Opts())
		if err != nil {
			continue
		}
		dumps = append(dumps, canon.DumpRealtime(rt, true))
		feeds = append(feeds, rt)
		goodNames = append(goodNames, n)
	}
	return
}

func journalDump(j *journal.Journal) string { return canon.Dump(j, nil) }

func runC19(c *core.Ctx) {
	nEnum, nRand, nCLI, _ := c19Counts(c.Tier)
	r := c.R
	nk := len(c19Kinds)
	var entries []c19Entry
	mode := "in-process"
	switch {
	case c.Index < nEnum:
		// decode into a kind sequence of length 1..4
		rem := c.Index
		pow := 1
		for l := 1; l <= 4; l++ {
			pow *= nk
			if rem < pow {
				for i := 0; i < l; i++ {
					entries = append(entries, c19Entry{name: fmt.Sprintf("f%d", i), kind: c19Kinds[rem%nk]})
					rem /= nk
				}
				break
			}
			rem -= pow
		}
		c.Feature(fmt.Sprintf("enumerated-directory-size-%d", len(entries)))
	case c.Index < nEnum+2*len(c19RunSizes(c.Tier)):
		// size sweep: a run of n consecutive bad entries (or n good files) between good files
		k := c.Index - nEnum
		n := c19RunSizes(c.Tier)[k/2]
		entries = append(entries, c19Entry{"a-first-good", "good"})
		for i := 0; i < n; i++ {
			kind := "good"
			if k%2 == 0 {
				kind = core.Pick(r, []string{"empty-file", "random-bytes", "sub-directory", "dangling-symlink", "truncated-good"})
			}
			entries = append(entries, c19Entry{fmt.Sprintf("m-%05d", i), kind})
		}
		entries = append(entries, c19Entry{"z-last-good", "good"}, c19Entry{"zz-after", "good"})
		c.Feature(fmt.Sprintf("run-size-sweep:bad=%v", k%2 == 0))
	default:
		maxN := 12
		if c.Thorough() {
			maxN = 40
		}
		n := r.Intn(maxN + 1)
		perm := r.Perm(len(hostileNames))
		for i := 0; i < n; i++ {
			name := fmt.Sprintf("feed-%03d", r.Intn(1000))
			if i < len(perm) && r.Chance(2, 3) {
				name = hostileNames[perm[i]]
			}
			dup := false
			for _, e := range entries {
				if e.name == name {
					dup = true
				}
			}
			if dup {
				continue
			}
			kind := "good"
			if r.Chance(2, 5) {
				kind = core.Pick(r, c19Kinds)
			}
			entries = append(entries, c19Entry{name: name, kind: kind})
		}
		c.Feature("random-directory-hostile-names")
		if c.Index >= nEnum+nRand && c.Index >= nEnum+2*len(c19RunSizes(c.Tier)) {
			mode = "cli"
			if c.Index >= nEnum+nRand+nCLI {
				mode = "strace"
			}
			// the CLI variants cannot delete a file between listing and reading
			for i := range entries {
				if entries[i].kind == "deleted-after-listing" {
					entries[i].kind = "good"
				}
			}
			if len(entries) == 0 {
				entries = append(entries, c19Entry{"only", "good"})
			}
		}
	}
	dir := filepath.Join(c.RunDir, fmt.Sprintf("c19-%d-%d", c.Replica, c.Index), "feeds")
	defer c19Cleanup(filepath.Dir(dir))
	deleteLater, err := c19Materialise(r, dir, entries)
	if err != nil {
		c.Note("harness_error", "cannot build directory: "+err.Error())
		c.Observe("harness_errors", 1)
		return
	}
	var names []string
	byName := map[string]string{}
	for _, e := range entries {
		names = append(names, e.name)
		byName[e.name] = e.kind
	}
	sortedNames := append([]string(nil), names...)
	sort.Strings(sortedNames)
	var kindSeq []string
	for _, n := range sortedNames {
		kindSeq = append(kindSeq, byName[n])
	}
	c.Shape(strings.Join(kindSeq, ","))
	for _, k := range kindSeq {
		c.Feature("entry:" + k)
	}
	detail := func() any {
		return map[string]any{"entries_in_name_order": fmt.Sprint(sortedNames), "kinds_in_name_order": fmt.Sprint(kindSeq), "mode": mode}
	}
	switch mode {
	case "in-process":
		src, err := journal.NewDirectoryGtfsrtSource(dir)
		if err != nil {
			c.Violationf("C19|source-creation-failed", detail(), "NewDirectoryGtfsrtSource failed on a listable directory: %v", err)
			return
		}
		skip := map[string]bool{}
		for _, p := range deleteLater {
			os.Remove(p)
			skip[filepath.Base(p)] = true
		}
		want, wantFeeds, _ := c19Expected(dir, names, skip)
		var got []string
		var gotFeeds []*gtfs.Realtime
		calls := 0
		// slow consumer: the source has a branch that only runs when a second or more has passed since it was created (or
		// since that branch last ran); a few directories are consumed with a pause before the first or before the last entry
		slow := false
		if c.Index < nEnum && (c.Index%64 == 5 || (entries[len(entries)-1].kind == "good" && c.Index%8 == 5)) {
			slow = true
			c.Feature("slow-consumer-pause-1.05s-before-every-call")
			if entries[len(entries)-1].kind == "good" {
				c.Feature("slow-consumer:last-entry-good")
			}
		}
		for calls <= len(entries)+1 {
			if slow && calls < len(entries) {
				time.Sleep(1050 * time.Millisecond)
			}
			x := src.Next()
			calls++
			c.Eval(1)
			if x == nil {
				break
			}
			got = append(got, canon.DumpRealtime(x, true))
			gotFeeds = append(gotFeeds, x)
		}
		c.Cmp(1)
		if calls > len(entries)+1 {
			c.Violationf("C19|source-does-not-end", detail(), "Next() returned %d values for a directory of %d entries", calls, len(entries))
			return
		}
		for k := 0; k < 3; k++ {
			c.Cmp(1)
			c.Eval(1)
			if src.Next() != nil {
				c.Violationf("C19|value-after-end", detail(), "Next() returned a value after it had returned nil")
			}
		}
		c.Cmp(1)
		if len(got) != len(want) {
			c.Violationf("C19|yield-count", detail(), "the source yielded %d feeds, the directory has %d readable, parseable files", len(got), len(want))
			return
		}
		for i := range want {
			c.Cmp(1)
			if got[i] != want[i] {
				_, desc, _ := diffPath(want[i], got[i])
				c.Violationf("C19|yield-order-or-content", detail(), "feed %d yielded by the source is not the parse of the %d-th good file in name order: %s", i, i, desc)
				return
			}
		}
		// journal over the directory == journal over the good files alone
		src2, _ := journal.NewDirectoryGtfsrtSource(dir)
		w0, w1 := time.Unix(0, 0), time.Unix(1<<40, 0)
		jd := journal.BuildJournal(src2, w0, w1)
		jg := journal.BuildJournal(&hgen.SliceSource{Feeds: wantFeeds}, w0, w1)
		c.Eval(2)
		c.Cmp(1)
		if a, b := journalDump(jg), journalDump(jd); a != b {
			_, desc, _ := diffPath(a, b)
			c.Violationf("C19|journal-differs", detail(), "the journal built from the directory differs from the journal built from its good files alone: %s", desc)
		}
		c.Observe("good_files_yielded", len(want))
		if c.WantSample() && len(entries) >= 3 && len(want) >= 1 && len(want) < len(entries) {
			c.Sample(map[string]any{"entries_in_name_order": sortedNames, "kinds_in_name_order": kindSeq, "feeds_yielded": len(got), "journal_trips": len(jd.Trips)})
		}
	case "cli", "strace":
		c19CLI(c, dir, names, byName, mode == "strace", detail)
	}
}

var straceOpen = regexp.MustCompile(`openat\(AT_FDCWD, "((?:[^"\\]|\\.)*)", [^)]*\)\s+= (-?\d+)`)

// c19CLI runs the real CLI over the directory, optionally under strace with read faults injected.
func c19CLI(c *core.Ctx, dir string, names []string, byName map[string]string, withStrace bool, detail func() any) {
	exe, _ := os.Executable()
	cli := filepath.Join(filepath.Dir(exe), "gtfs-cli")
	if _, err := os.Stat(cli); err != nil {
		c.Note("harness_error", "CLI binary missing: "+cli)
		c.Observe("harness_errors", 1)
		return
	}
	out := filepath.Join(filepath.Dir(dir), "out")
	os.MkdirAll(out, 0755)
	skip := map[string]bool{}
	var cmd *exec.Cmd
	var logPath string
	if withStrace {
		// choose regular files to make unreadable (beginning, middle, end, all)
		var regular []string
		sorted := append([]string(nil), names...)
		sort.Strings(sorted)
		for _, n := range sorted {
			if k := byName[n]; k == "good" || k == "empty-file" || k == "truncated-good" || k == "random-bytes" {
				regular = append(regular, n)
			}
		}
		var inject []string
		switch c.Index % 5 {
		case 4:
			// observer only: every regular file is traced, nothing is injected
		case 0:
			if len(regular) > 0 {
				inject = regular[:1]
			}
		case 1:
			if len(regular) > 0 {
				inject = regular[len(regular)/2 : len(regular)/2+1]
			}
		case 2:
			if len(regular) > 0 {
				inject = regular[len(regular)-1:]
			}
		case 3:
			inject = regular
		}
		logPath = filepath.Join(filepath.Dir(dir), "strace.log")
		// run 1: observer (no injection) is implied by the syscall log of run 2 for non-injected files; use one run with both
		args := []string{"-f", "-o", logPath, "-e", "trace=openat,read"}
		for _, n := range regular {
			args = append(args, "-P", filepath.Join(dir, n))
		}
		if len(inject) > 0 {
			// inject only on the chosen files: a second strace cannot be stacked, so restrict -P to them when injecting
			args = []string{"-f", "-o", logPath, "-e", "trace=openat,read", "-e", "inject=read:error=EIO"}
			for _, n := range inject {
				args = append(args, "-P", filepath.Join(dir, n))
				skip[n] = true
			}
			c.Feature(fmt.Sprintf("strace-inject-EIO:%d-files", len(inject)))
		} else {
			c.Feature("strace-observer-only")
		}
		args = append(args, cli, "journal", "-o", out, dir)
		cmd = exec.Command("strace", args...)
	} else {
		cmd = exec.Command(cli, "journal", "-o", out, dir)
		c.Feature("cli-run")
	}
	var stdout, stderr bytes.Buffer
	cmd.Stdout, cmd.Stderr = &stdout, &stderr
	err := cmd.Run()
	c.Eval(1)
	if err != nil {
		if withStrace && strings.Contains(stderr.String(), "ptrace") {
			c.Skip("strace-not-permitted-here")
			return
		}
		d := detail().(map[string]any)
		d["stdout"], d["stderr"] = core.Trunc(stdout.String(), 2000), core.Trunc(stderr.String(), 2000)
		c.Violationf("C19|cli-failed", d, "the CLI failed on a directory with bad entries: %v", err)
		return
	}
	_, wantFeeds, goodNames := c19Expected(dir, names, skip)
	jg := journal.BuildJournal(&hgen.SliceSource{Feeds: wantFeeds}, time.Unix(0, 0), time.Now())
	exp, err := jg.ExportToCsv()
	if err != nil {
		c.Skip("reference-export-failed")
		return
	}
	gotTrips, _ := os.ReadFile(filepath.Join(out, "trips.csv"))
	gotStops, _ := os.ReadFile(filepath.Join(out, "stop_times.csv"))
	c.Cmp(2)
	if !bytes.Equal(gotTrips, exp.TripsCsv) || !bytes.Equal(gotStops, exp.StopTimesCsv) {
		d := detail().(map[string]any)
		d["good_files"] = fmt.Sprint(goodNames)
		d["cli_trips_csv"], d["expected_trips_csv"] = core.Trunc(string(gotTrips), 1500), core.Trunc(string(exp.TripsCsv), 1500)
		kind := "C19|cli-journal-differs"
		if withStrace {
			kind = "C19|cli-journal-differs-under-read-faults"
		}
		c.Violationf(kind, d, "the CLI's journal differs from the journal of the good files alone (good files: %v)", goodNames)
	}
	c.Observe("cli_runs", 1)
	if withStrace {
		b, _ := os.ReadFile(logPath)
		// offline checker over the syscall log: each traced file is opened exactly once, in name order
		var opened []string
		for _, m := range straceOpen.FindAllStringSubmatch(string(b), -1) {
			p := m[1]
			if strings.HasPrefix(p, dir+"/") {
				opened = append(opened, strings.TrimPrefix(p, dir+"/"))
			}
		}
		c.Observe("strace_openat_events", len(opened))
		seen := map[string]int{}
		for _, n := range opened {
			seen[n]++
		}
		c.Cmp(1)
		for n, k := range seen {
			if k != 1 {
				c.Violationf("C19|file-opened-more-than-once", detail(), "file %q was opened %d times", n, k)
			}
		}
		if !sort.StringsAreSorted(unescapeAll(opened)) {
			c.Violationf("C19|files-not-opened-in-name-order", detail(), "files were opened in the order %v", opened)
		}
		if c.WantSample() {
			c.Sample(map[string]any{"mode": "strace", "injected_EIO_on": fmt.Sprint(keysOf(skip)), "openat_events": opened, "good_files": goodNames})
		}
	}
}

func keysOf(m map[string]bool) []string {
	var out []string
	for k := range m {
		out = append(out, k)
	}
	sort.Strings(out)
	return out
}

// unescapeAll undoes strace's C-style escaping of non-ASCII bytes well enough for ordering (octal escapes).
func unescapeAll(xs []string) []string {
	out := make([]string, len(xs))
	for i, s := range xs {
		var b []byte
		for k := 0; k < len(s); k++ {
			if s[k] == '\\' && k+1 < len(s) {
				switch s[k+1] {
				case 't':
					b = append(b, '\t')
					k++
					continue
				case 'n':
					b = append(b, '\n')
					k++
					continue
				case '\\', '"':
					b = append(b, s[k+1])
					k++
					continue
				}
				// octal
				v, n := 0, 0
				for n < 3 && k+1+n < len(s) && s[k+1+n] >= '0' && s[k+1+n] <= '7' {
					v = v*8 + int(s[k+1+n]-'0')
					n++
				}
				if n > 0 {
					b = append(b, byte(v))
					k += n
					continue
				}
			}
			b = append(b, s[k])
		}
		out[i] = string(b)
	}
	return out
}
