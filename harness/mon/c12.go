package mon

import (
	"fmt"
	"time"

	"github.com/jamespfennell/gtfs"
	gtfsrt "github.com/jamespfennell/gtfs/proto"
	"google.golang.org/protobuf/proto"

	"verifharness/canon"
	"verifharness/core"
	"verifharness/rgen"
)

const c12SinglesPerCase = 16
const c12Singles = 16 * 3 * 33

func c12Counts(tier string) (singles, pairs, random int) {
	s := c12Singles / c12SinglesPerCase
	if tier == "thorough" {
		return s, 150000, 5000000 + 3*len(c12Sizes(tier))
	}
	return s, 2000, 40000 + 3*len(c12Sizes(tier))
}

func c12Sizes(tier string) []int {
	if tier == "thorough" {
		return core.Thresholds(4200)
	}
	return core.Thresholds(1100)
}

// c12SizedAlert builds an alert whose number of selectors of one kind is n (size-threshold sweep):
// kind 0: n explicit route selectors; kind 1: n non-identifying route-only descriptors over distinct routes;
// kind 2: n identifiable trips. A handful of descriptor selectors naming the first, a middle and the last
// of those routes (and two routes named nowhere else) are inserted at random positions.
func c12SizedAlert(r *core.Rand, kind, n, uniq int) []*gtfsrt.EntitySelector {
	var out []*gtfsrt.EntitySelector
	route := func(i int) string { return fmt.Sprintf("R%03d", i) }
	for i := 0; i < n; i++ {
		switch kind {
		case 0:
			s := &gtfsrt.EntitySelector{RouteId: rgen.S(route(i))}
			if i%3 == 0 {
				s.DirectionId = rgen.U32(uint32(i % 2))
			}
			out = append(out, s)
		case 1:
			d := &gtfsrt.TripDescriptor{RouteId: rgen.S(route(i))}
			if i%2 == 0 {
				d.DirectionId = rgen.U32(uint32((i / 2) % 2))
			}
			out = append(out, &gtfsrt.EntitySelector{Trip: d})
		default:
			out = append(out, &gtfsrt.EntitySelector{Trip: &gtfsrt.TripDescriptor{TripId: rgen.S(fmt.Sprintf("sized-%d-%d", uniq, i)), RouteId: rgen.S(route(i % 7))}})
		}
	}
	extra := []int{0, n / 2, n - 1, n + 5, n + 6}
	for _, i := range extra {
		if i < 0 {
			continue
		}
		d := &gtfsrt.TripDescriptor{RouteId: rgen.S(route(i))}
		if r.Bool() {
			d.DirectionId = rgen.U32(uint32(r.Intn(2)))
		}
		sel := &gtfsrt.EntitySelector{Trip: d}
		if r.Chance(1, 3) {
			sel.StopId = rgen.S("S1")
		}
		pos := r.Intn(len(out) + 1)
		out = append(out, nil)
		copy(out[pos+1:], out[pos:])
		out[pos] = sel
	}
	return out
}

func init() {
	core.Register(&core.Property{
		ID:    "C12",
		Level: "exploration",
		Rule: "exhaustive single-selector space: agency, route, direction, stop {absent, present} x route type {absent, known, unknown number} x trip descriptor {absent, or every presence combination of trip_id, route_id, direction, start_time, start_date} = 1584 selectors, each as an alert of its own; plus random alerts of 2-8 selectors over 3 routes and both directions built to hit the interactions (two fallback routes, identifiable trip beside a route-only descriptor, one direction on one route and both on another, explicit route suppressing a fallback, useless selectors in between); thorough adds exhaustive-ish pairs over a reduced domain; " +
			"distinct_nontrivial counts distinct selector-presence signatures of alerts (multiset of per-selector field-presence masks)",
		Cases: func(tier string) int { a, b, cc := c12Counts(tier); return a + b + cc },
		Run:   runC12,
		Assumptions: []string{
			"reference normalisation written from the statement; kept selectors must appear in order, route entities derived from non-identifying descriptors may appear anywhere (their order is C06's subject)",
			"for a non-identifying descriptor that names a route together with a start time or start date (more than 'only a route, optionally a direction'), the derived route entity is accepted but not demanded",
			"ids are non-empty strings; start times/dates are well-formed",
		},
	})
}

// c12Ref is the reference normalisation of one alert's selectors.
type c12Expect struct {
	kept      []gtfs.AlertInformedEntity
	fallback  []gtfs.AlertInformedEntity // required
	optional  []gtfs.AlertInformedEntity // accepted, not demanded
	trips     []gtfs.TripID
	masks     string
	nFallback int
}

func c12Reference(sels []*gtfsrt.EntitySelector) *c12Expect {
	ex := &c12Expect{}
	z := time.UTC
	unasserted := 0
	explicit := map[string]bool{}
	type fb struct {
		f, t   bool
		strict bool // named by a descriptor that is exactly {route [, direction]}
		order  int
	}
	fbs := map[string]*fb{}
	var fbOrder []string
	for _, s := range sels {
		mask := 0
		if s.AgencyId != nil {
			mask |= 1
		}
		if s.RouteId != nil {
			mask |= 2
			explicit[*s.RouteId] = true
		}
		if s.RouteType != nil {
			mask |= 4
		}
		if s.DirectionId != nil {
			mask |= 8
		}
		if s.StopId != nil {
			mask |= 16
		}
		identifiable := rgen.Identifiable(s.Trip)
		if s.Trip != nil {
			mask |= 32
			d := s.Trip
			if d.TripId != nil {
				mask |= 64
			}
			if d.RouteId != nil {
				mask |= 128
			}
			if d.DirectionId != nil {
				mask |= 256
			}
			if d.StartTime != nil {
				mask |= 512
			}
			if d.StartDate != nil {
				mask |= 1024
			}
			if !identifiable && d.GetRouteId() != "" {
				route := d.GetRouteId()
				x, ok := fbs[route]
				if !ok {
					x = &fb{order: len(fbOrder)}
					fbs[route] = x
					fbOrder = append(fbOrder, route)
				}
				if d.DirectionId == nil {
					x.f, x.t = true, true
				} else if *d.DirectionId == 0 {
					x.f = true
				} else {
					x.t = true
				}
				if d.StartTime == nil && d.StartDate == nil {
					x.strict = true
				}
			}
		}
		ex.masks += fmt.Sprintf("%x,", mask)
		knownType := rgen.RouteTypeOf(s.RouteType) != gtfs.RouteType_Unknown
		informs := s.AgencyId != nil || s.RouteId != nil || knownType || s.StopId != nil || identifiable
		if !informs {
			continue
		}
		ie := gtfs.AlertInformedEntity{AgencyID: s.AgencyId, RouteID: s.RouteId, RouteType: rgen.RouteTypeOf(s.RouteType), DirectionID: rgen.DirectionOf(s.DirectionId), StopID: s.StopId}
		if identifiable {
			id := rgen.TripIDOf(s.Trip, z, &unasserted)
			ie.TripID = &id
			ex.trips = append(ex.trips, id)
		}
		ex.kept = append(ex.kept, ie)
	}
	for _, route := range fbOrder {
		x := fbs[route]
		if explicit[route] {
			continue
		}
		rcopy := route
		ie := gtfs.AlertInformedEntity{RouteID: &rcopy, RouteType: gtfs.RouteType_Unknown}
		switch {
		case x.f && x.t:
		case x.f:
			ie.DirectionID = gtfs.DirectionID_False
		default:
			ie.DirectionID = gtfs.DirectionID_True
		}
		if x.strict {
			ex.fallback = append(ex.fallback, ie)
		} else {
			ex.optional = append(ex.optional, ie)
			// either direction rendering is tolerated for the not-demanded case
		}
		ex.nFallback++
	}
	return ex
}

func dumpIE(ie *gtfs.AlertInformedEntity) string { return canon.Dump(ie, &canon.Options{NoZone: true}) }

// c12Check compares one parsed alert with the expectation.
func c12Check(c *core.Ctx, kind string, alert *gtfs.Alert, rt *gtfs.Realtime, ex *c12Expect, detail func() any) {
	parsed := make([]string, len(alert.InformedEntities))
	for i := range alert.InformedEntities {
		parsed[i] = dumpIE(&alert.InformedEntities[i])
		ie := &alert.InformedEntities[i]
		// every informed entity informs something
		c.Cmp(1)
		ident := ie.TripID != nil && (ie.TripID.ID != "" || (ie.TripID.RouteID != "" && ie.TripID.DirectionID != gtfs.DirectionID_Unspecified && ie.TripID.HasStartTime && ie.TripID.HasStartDate))
		if ie.AgencyID == nil && ie.RouteID == nil && ie.RouteType == gtfs.RouteType_Unknown && ie.StopID == nil && !ident {
			c.Violationf("C12|entity-informs-nothing|"+kind, detail(), "informed entity %d informs nothing", i)
		}
		if ie.TripID != nil && !ident {
			c.Violationf("C12|non-identifying-trip-id-kept|"+kind, detail(), "informed entity %d carries a trip identifier that does not determine a trip", i)
		}
	}
	kept := make([]string, len(ex.kept))
	for i := range ex.kept {
		kept[i] = dumpIE(&ex.kept[i])
	}
	need := map[string]int{}
	for i := range ex.fallback {
		need[dumpIE(&ex.fallback[i])]++
	}
	optRoutes := map[string]bool{}
	for i := range ex.optional {
		optRoutes[*ex.optional[i].RouteID] = true
	}
	k := 0
	for i, p := range parsed {
		c.Cmp(1)
		switch {
		case k < len(kept) && kept[k] == p:
			k++
		case need[p] > 0:
			need[p]--
		default:
			ie := &alert.InformedEntities[i]
			if ie.RouteID != nil && optRoutes[*ie.RouteID] && ie.AgencyID == nil && ie.StopID == nil && ie.TripID == nil && ie.RouteType == gtfs.RouteType_Unknown {
				c.Skip("derived-route-entity-not-demanded-by-statement")
				continue
			}
			expected := "<a derived route entity or nothing>"
			if k < len(kept) {
				expected = kept[k]
			}
			_, d, _ := diffPath(expected, p)
			c.Violationf("C12|unexpected-entity|"+kind, detail(), "informed entity %d is neither the next kept selector nor a derived route entity: %s", i, d)
			return
		}
	}
	c.Cmp(2)
	if k < len(kept) {
		c.Violationf("C12|selector-lost|"+kind, detail(), "selector %d of the kept selectors is not represented: %s", k, core.Trunc(kept[k], 300))
	}
	for p, n := range need {
		if n > 0 {
			c.Violationf("C12|derived-route-entity-missing|"+kind, detail(), "a route named only by a non-identifying trip descriptor is not informed: %s", core.Trunc(p, 300))
		}
	}
	for _, id := range ex.trips {
		found := false
		for i := range rt.Trips {
			if tripIDEq(rt.Trips[i].ID, id) {
				found = true
				c.Cmp(1)
				if rt.Trips[i].IsEntityInMessage {
					c.Violationf("C12|alert-trip-flagged-as-entity|"+kind, detail(), "trip %+v is only referenced by an alert but flagged as an entity of its own", id)
				}
			}
		}
		c.Cmp(1)
		if !found {
			c.Violationf("C12|identifiable-trip-not-in-trips|"+kind, detail(), "identifiable alert trip %+v is not in Trips", id)
		}
	}
}

func c12Single(idx int, uniq int) *gtfsrt.EntitySelector {
	s := &gtfsrt.EntitySelector{}
	b := idx % 16
	idx /= 16
	rtSel := idx % 3
	idx /= 3
	td := idx // 0..32
	if b&1 != 0 {
		s.AgencyId = rgen.S("MTA")
	}
	if b&2 != 0 {
		s.RouteId = rgen.S("RX")
	}
	if b&4 != 0 {
		s.DirectionId = rgen.U32(uint32(uniq % 2))
	}
	if b&8 != 0 {
		s.StopId = rgen.S("S9")
	}
	switch rtSel {
	case 1:
		s.RouteType = rgen.I32([]int32{0, 1, 2, 3, 4, 5, 6, 7, 11, 12}[uniq%10])
	case 2:
		s.RouteType = rgen.I32([]int32{8, 9, 10, 13, 100, 700, -1, 10000}[uniq%8])
	}
	if td > 0 {
		m := td - 1
		d := &gtfsrt.TripDescriptor{}
		if m&1 != 0 {
			d.TripId = rgen.S(fmt.Sprintf("trip-%d", uniq))
		}
		if m&2 != 0 {
			d.RouteId = rgen.S(fmt.Sprintf("R%d", uniq%3))
		}
		if m&4 != 0 {
			d.DirectionId = rgen.U32(uint32((uniq / 3) % 2))
		}
		if m&8 != 0 {
			d.StartTime = rgen.S(fmt.Sprintf("%02d:%02d:%02d", []int{uniq % 24, uniq % 24, 24, 47, 48, 49, 72, 99}[uniq%8], (uniq/24)%60, uniq%60))
		}
		if m&16 != 0 {
			d.StartDate = rgen.S("20240115")
		}
		s.Trip = d
	}
	return s
}

func c12RandomAlert(r *core.Rand, uniq int) []*gtfsrt.EntitySelector {
	n := 2 + r.Intn(7)
	var out []*gtfsrt.EntitySelector
	routes := []string{"A", "B", "C"}
	for i := 0; i < n; i++ {
		s := &gtfsrt.EntitySelector{}
		switch r.Intn(9) {
		case 0: // useless selector
			if r.Bool() {
				s.DirectionId = rgen.U32(uint32(r.Intn(2)))
			}
			if r.Bool() {
				s.RouteType = rgen.I32(99)
			}
		case 1: // explicit route
			s.RouteId = rgen.S(core.Pick(r, routes))
			if r.Bool() {
				s.DirectionId = rgen.U32(uint32(r.Intn(2)))
			}
		case 2, 3, 4: // route-only descriptor, optional direction
			d := &gtfsrt.TripDescriptor{RouteId: rgen.S(core.Pick(r, routes))}
			if r.Chance(2, 3) {
				d.DirectionId = rgen.U32(uint32(r.Intn(2)))
			}
			s.Trip = d
			if r.Chance(1, 4) {
				s.StopId = rgen.S("S1")
			}
			if r.Chance(1, 6) {
				s.AgencyId = rgen.S("MTA")
			}
		case 5: // identifiable trip by id
			s.Trip = &gtfsrt.TripDescriptor{TripId: rgen.S(fmt.Sprintf("t%d-%d", uniq, i)), RouteId: rgen.S(core.Pick(r, routes))}
			if r.Bool() {
				s.Trip.DirectionId = rgen.U32(uint32(r.Intn(2)))
			}
		case 6: // identifiable without id
			s.Trip = &gtfsrt.TripDescriptor{RouteId: rgen.S(core.Pick(r, routes)), DirectionId: rgen.U32(uint32(r.Intn(2))), StartTime: rgen.S(fmt.Sprintf("%02d:%02d:00", []int{i, i, 24 + i, 48 + i, 72, 99}[uniq%6], uniq%60)), StartDate: rgen.S("20240115")}
		case 7: // non-identifying with extras (route + start time)
			s.Trip = &gtfsrt.TripDescriptor{RouteId: rgen.S(core.Pick(r, routes)), StartTime: rgen.S("08:00:00")}
			if r.Bool() {
				s.Trip.DirectionId = rgen.U32(uint32(r.Intn(2)))
			}
		default:
			switch r.Intn(3) {
			case 0:
				s.StopId = rgen.S(core.Pick(r, []string{"S1", "S2"}))
			case 1:
				s.AgencyId = rgen.S("MTA")
			default:
				s.RouteType = rgen.I32(int32(r.Intn(8)))
			}
			// descriptor with nothing useful
			if r.Chance(1, 4) {
				s.Trip = &gtfsrt.TripDescriptor{StartDate: rgen.S("20240115")}
			}
		}
		out = append(out, s)
	}
	// sibling selectors: a copy of an earlier selector whose trip descriptor differs in ONE field (schedule relationship,
	// start date, direction, route) - two different selectors that a key built from too few fields takes for one
	if r.Chance(1, 3) {
		for k := 0; k < 1+r.Intn(2); k++ {
			src := out[r.Intn(len(out))]
			if src.Trip == nil {
				continue
			}
			cp := proto.Clone(src).(*gtfsrt.EntitySelector)
			switch r.Intn(4) {
			case 0:
				sr := gtfsrt.TripDescriptor_ScheduleRelationship(core.Pick(r, []int32{0, 1, 2, 3}))
				cp.Trip.ScheduleRelationship = &sr
			case 1:
				cp.Trip.StartDate = rgen.S(core.Pick(r, []string{"20240116", "20240115"}))
			case 2:
				cp.Trip.DirectionId = rgen.U32(uint32(r.Intn(2)))
			default:
				cp.Trip.RouteId = rgen.S(core.Pick(r, routes))
			}
			out = append(out, cp)
		}
	}
	for _, s := range out {
		if s.Trip != nil && r.Chance(1, 6) {
			sr := gtfsrt.TripDescriptor_ScheduleRelationship(core.Pick(r, []int32{0, 1, 2, 3}))
			s.Trip.ScheduleRelationship = &sr
		}
	}
	return out
}

func runC12(c *core.Ctx) {
	nS, nP, _ := c12Counts(c.Tier)
	hdr := &gtfsrt.FeedHeader{GtfsRealtimeVersion: rgen.S("2.0"), Timestamp: rgen.U64(1700000000)}
	m := &gtfsrt.FeedMessage{Header: hdr}
	var expects []*c12Expect
	kind := "random"
	switch {
	case c.Index < nS:
		kind = "single-selector"
		for k := 0; k < c12SinglesPerCase; k++ {
			idx := c.Index*c12SinglesPerCase + k
			sel := c12Single(idx, idx)
			m.Entity = append(m.Entity, &gtfsrt.FeedEntity{Id: rgen.S(fmt.Sprintf("alert-%d", idx)), Alert: &gtfsrt.Alert{InformedEntity: []*gtfsrt.EntitySelector{sel}}})
			expects = append(expects, c12Reference([]*gtfsrt.EntitySelector{sel}))
		}
		c.Feature("exhaustive-single-selector-alerts")
	case c.Index < nS+nP:
		kind = "selector-pair"
		// pairs over a reduced domain: both selectors drawn from the descriptor-bearing singles
		for k := 0; k < 8; k++ {
			i1 := 16*3*(1+c.R.Intn(32)) + c.R.Intn(48)
			i2 := 16*3*(1+c.R.Intn(32)) + c.R.Intn(48)
			u := c.Index*16 + 2*k
			s1, s2 := c12Single(i1, u), c12Single(i2, u+1)
			m.Entity = append(m.Entity, &gtfsrt.FeedEntity{Id: rgen.S(fmt.Sprintf("alert-%d", u)), Alert: &gtfsrt.Alert{InformedEntity: []*gtfsrt.EntitySelector{s1, s2}}})
			expects = append(expects, c12Reference([]*gtfsrt.EntitySelector{s1, s2}))
		}
		c.Feature("selector-pairs")
	case c.Index < nS+nP+3*len(c12Sizes(c.Tier)):
		kind = "sized-alert"
		k := c.Index - nS - nP
		n := c12Sizes(c.Tier)[k/3]
		sels := c12SizedAlert(c.R, k%3, n, c.Index)
		m.Entity = append(m.Entity, &gtfsrt.FeedEntity{Id: rgen.S(fmt.Sprintf("alert-%d", c.Index)), Alert: &gtfsrt.Alert{InformedEntity: sels}})
		expects = append(expects, c12Reference(sels))
		c.Feature(fmt.Sprintf("size-sweep:kind%d", k%3))
	default:
		na := 1 + c.R.Intn(3)
		for k := 0; k < na; k++ {
			sels := c12RandomAlert(c.R, c.Index*4+k)
			a := &gtfsrt.Alert{InformedEntity: sels}
			rgen.GenAlertBody(c.R, a)
			m.Entity = append(m.Entity, &gtfsrt.FeedEntity{Id: rgen.S(fmt.Sprintf("alert-%d-%d", c.Index, k)), Alert: a})
			expects = append(expects, c12Reference(sels))
		}
		c.Feature("random-multi-selector-alerts")
	}
	rt, err := gtfs.ParseRealtime(rgen.Marshal(m), &gtfs.ParseRealtimeOptions{})
	c.Eval(1)
	if err != nil {
		c.Violationf("C12|parse-error", map[string]any{"error": err.Error(), "message": prototextOf(m)}, "ParseRealtime rejected a valid message: %v", err)
		return
	}
	c.Cmp(1)
	if len(rt.Alerts) != len(m.Entity) {
		c.Violationf("C12|alert-count", map[string]any{"message": prototextOf(m)}, "%d alert entities but %d alerts", len(m.Entity), len(rt.Alerts))
		return
	}
	for i, ex := range expects {
		i := i
		if kind == "sized-alert" {
			c.Shape(fmt.Sprintf("sized-alert selectors=%d derived=%d", len(m.Entity[i].Alert.InformedEntity), ex.nFallback))
		} else {
			c.Shape(kind + ":" + ex.masks)
		}
		if ex.nFallback >= 2 {
			c.Feature("two-or-more-derived-routes")
		}
		if ex.nFallback > 0 {
			c.Feature("derived-route-entity")
		}
		if len(ex.trips) > 0 {
			c.Feature("identifiable-alert-trip")
		}
		c12Check(c, kind, &rt.Alerts[i], rt, ex, func() any {
			return map[string]any{"alert": prototextOf(m.Entity[i]), "parsed_informed_entities": canon.Dump(rt.Alerts[i].InformedEntities, nil)}
		})
	}
	if c.WantSample() && kind == "random" {
		c.Sample(map[string]any{"alert": prototextOf(m.Entity[0]), "parsed_informed_entities": canon.Dump(rt.Alerts[0].InformedEntities, nil)})
	}
	// explicit defaults inside trip descriptors: trip_id / route_id / start_time / start_date explicitly set to the empty
	// string say the same as the field being absent; the same expectations must hold (single-selector cases: every absent
	// field made explicit; other kinds: a random half of them)
	if kind == "sized-alert" {
		return
	}
	m2 := proto.Clone(m).(*gtfsrt.FeedMessage)
	changed := 0
	for _, e := range m2.Entity {
		for _, sel := range e.Alert.InformedEntity {
			d := sel.Trip
			if d == nil {
				continue
			}
			for _, f := range []**string{&d.TripId, &d.RouteId, &d.StartTime, &d.StartDate} {
				if *f == nil && (kind == "single-selector" || c.R.Bool()) {
					*f = rgen.S("")
					changed++
				}
			}
		}
	}
	if changed == 0 {
		return
	}
	c.Feature("explicitly-empty-trip-descriptor-fields")
	rt2, err := gtfs.ParseRealtime(rgen.Marshal(m2), &gtfs.ParseRealtimeOptions{})
	c.Eval(1)
	if err != nil || len(rt2.Alerts) != len(m2.Entity) {
		c.Violationf("C12|explicit-empty|parse-error-or-alert-count", map[string]any{"message": prototextOf(m2)}, "message with explicitly empty trip descriptor fields: err=%v", err)
		return
	}
	for i, ex := range expects {
		i := i
		c12Check(c, kind+"+explicit-empty", &rt2.Alerts[i], rt2, ex, func() any {
			return map[string]any{"alert": prototextOf(m2.Entity[i]), "parsed_informed_entities": canon.Dump(rt2.Alerts[i].InformedEntities, nil)}
		})
	}
}
