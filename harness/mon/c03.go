package mon

import (
	"fmt"
	"runtime/debug"
	"strconv"
	"strings"

	"github.com/jamespfennell/gtfs"

	"verifharness/core"
	"verifharness/sgen"
)

func c03Counts(tier string) (bulk, large int) {
	if tier == "thorough" {
		return 800000, 64 + 2*len(c03RingSizes(tier))
	}
	return 10000, 8 + 2*len(c03RingSizes(tier))
}

// c03RingSizes: lengths of parent_station rings swept over the threshold list.
func c03RingSizes(tier string) []int {
	if tier == "thorough" {
		return core.Thresholds(5000)[1:]
	}
	return core.Thresholds(2100)[1:]
}

func init() {
	core.Register(&core.Property{
		ID:    "C03",
		Level: "exploration",
		Rule: "each case draws a feed, writes a unique tag into a free-text column of every routes/stops/trips/stop_times/transfers row, applies 0-6 random corruptions (dangling, blank or wrong-kind references, duplicate ids, self/mutual/long parent_station cycles, blank required cells, hostile cells, row shuffles/duplications/deletions, rejected rows carrying live references) and parses it; some cases are large feeds on both sides of slice-growth thresholds; every returned *Static is walked: each pointer must be identical to an element of the matching top-level slice whose id is the one written in the tagged row, required ones non-nil, parent walk step-bounded, Root() compared on acyclic stops; " +
			"distinct_nontrivial counts distinct (set of corruption kinds, accepted row-count vector) signatures of accepted archives with at least one cross-reference",
		Cases: func(tier string) int { b, l := c03Counts(tier); return b + l },
		Run:   runC03,
		Assumptions: []string{
			"an absent optional reference (nil Parent, nil Shape) is always acceptable; nothing here demands that a resolvable reference be kept",
			"inputs on which ParseStatic panics are counted and left to C05 (no result is returned, so C03 is vacuous there)",
		},
	})
}

// safeParseStatic runs ParseStatic and reports a panic instead of propagating it.
// roFaultMark prefixes the panic text when the panic was a write fault inside a read-only input buffer.
const roFaultMark = "WRITE-TO-INPUT: "

func safeParseStatic(b []byte, opts gtfs.ParseStaticOptions) (s *gtfs.Static, err error, panicked string) {
	defer func() {
		if r := recover(); r != nil {
			panicked = fmt.Sprint(r)
			if core.FaultInROBuf(r) {
				panicked = roFaultMark + panicked + "\n" + core.Trunc(string(debug.Stack()), 3000)
			}
		}
	}()
	s, err = gtfs.ParseStatic(b, opts)
	return
}

type tagIndex struct {
	rows map[string]map[string][]string // file -> tag -> cells
	cols map[string]map[string]int      // file -> column -> index
}

func buildTagIndex(a *sgen.Archive) *tagIndex {
	ti := &tagIndex{rows: map[string]map[string][]string{}, cols: map[string]map[string]int{}}
	for _, t := range a.Tables {
		tc, ok := sgen.TagColumns[t.Name]
		if !ok {
			continue
		}
		ci := t.Col(tc)
		if ci < 0 {
			continue
		}
		m := map[string][]string{}
		for _, row := range t.Rows {
			m[row[ci]] = row
		}
		ti.rows[t.Name] = m
		cm := map[string]int{}
		for i, h := range t.Header {
			cm[h] = i
		}
		ti.cols[t.Name] = cm
	}
	return ti
}

// count returns how many rows of file have the given value in col.
func (ti *tagIndex) count(file, col, value string) int {
	ci, ok := ti.cols[file][col]
	if !ok {
		return 0
	}
	n := 0
	for _, row := range ti.rows[file] {
		if row[ci] == value {
			n++
		}
	}
	return n
}

func (ti *tagIndex) cell(file, tag, col string) (string, bool) {
	row, ok := ti.rows[file][tag]
	if !ok {
		return "", false
	}
	ci, ok := ti.cols[file][col]
	if !ok {
		return "", true // column absent: blank
	}
	return row[ci], true
}

// walkStatic checks referential closure of s against the tagged archive it was parsed from.
func walkStatic(c *core.Ctx, s *gtfs.Static, ti *tagIndex, how string) (refs int) {
	viol := func(kind, ref string, detail map[string]any, format string, args ...any) {
		if detail == nil {
			detail = map[string]any{}
		}
		detail["corruptions"] = how
		c.Violationf("C03|"+kind+"|"+ref, detail, format, args...)
	}
	agencyIdx := map[*gtfs.Agency]int{}
	for i := range s.Agencies {
		agencyIdx[&s.Agencies[i]] = i
	}
	routeIdx := map[*gtfs.Route]int{}
	for i := range s.Routes {
		routeIdx[&s.Routes[i]] = i
	}
	stopIdx := map[*gtfs.Stop]int{}
	for i := range s.Stops {
		stopIdx[&s.Stops[i]] = i
	}
	svcIdx := map[*gtfs.Service]int{}
	for i := range s.Services {
		svcIdx[&s.Services[i]] = i
	}
	shapeIdx := map[*gtfs.Shape]int{}
	for i := range s.Shapes {
		shapeIdx[&s.Shapes[i]] = i
	}

	for i := range s.Routes {
		r := &s.Routes[i]
		refs++
		c.Cmp(1)
		if r.Agency == nil {
			viol("nil-required", "Route.Agency", map[string]any{"route": r.Id}, "route %q has no agency", r.Id)
			continue
		}
		ai, ok := agencyIdx[r.Agency]
		if !ok {
			viol("not-top-level-element", "Route.Agency", map[string]any{"route": r.Id}, "route %q: Agency is not an element of Static.Agencies", r.Id)
			continue
		}
		if cell, ok := ti.cell("routes.txt", r.Description, "agency_id"); ok {
			if cell != "" && s.Agencies[ai].Id != cell {
				viol("wrong-target", "Route.Agency", map[string]any{"route": r.Id, "named": cell, "got": s.Agencies[ai].Id}, "route %q names agency %q but points at agency %q", r.Id, cell, s.Agencies[ai].Id)
			}
			if cell == "" && (len(s.Agencies) != 1 || ai != 0) {
				viol("wrong-target", "Route.Agency", map[string]any{"route": r.Id, "named": "", "agencies": len(s.Agencies)}, "route %q names no agency but points at agency %q although the feed has %d agencies", r.Id, s.Agencies[ai].Id, len(s.Agencies))
			}
		} else {
			c.Skip("entity-without-tagged-row")
		}
	}
	for i := range s.Stops {
		st := &s.Stops[i]
		if st.Parent == nil {
			continue
		}
		refs++
		c.Cmp(1)
		pi, ok := stopIdx[st.Parent]
		if !ok {
			viol("not-top-level-element", "Stop.Parent", map[string]any{"stop": st.Id}, "stop %q: Parent is not an element of Static.Stops", st.Id)
			continue
		}
		if cell, ok := ti.cell("stops.txt", st.Description, "parent_station"); ok {
			if s.Stops[pi].Id != cell || cell == "" {
				cause := "row-names-another-stop"
				if cell == "" {
					cause = "row-names-no-parent"
				}
				if ti.count("stops.txt", "stop_id", st.Id) > 1 {
					cause = "stop-id-duplicated"
				}
				viol("wrong-target", "Stop.Parent|"+cause, map[string]any{"stop": st.Id, "named": cell, "got": s.Stops[pi].Id, "stop_index": i}, "stop %q (index %d) names parent %q but points at stop %q", st.Id, i, cell, s.Stops[pi].Id)
			}
		} else {
			c.Skip("entity-without-tagged-row")
		}
	}
	for i := range s.Transfers {
		t := &s.Transfers[i]
		tag := ""
		if t.MinTransferTime != nil {
			tag = strconv.Itoa(int(*t.MinTransferTime))
		}
		for _, e := range []struct {
			name string
			p    *gtfs.Stop
			col  string
		}{{"Transfer.From", t.From, "from_stop_id"}, {"Transfer.To", t.To, "to_stop_id"}} {
			refs++
			c.Cmp(1)
			if e.p == nil {
				viol("nil-required", e.name, nil, "transfer %d has a nil stop", i)
				continue
			}
			pi, ok := stopIdx[e.p]
			if !ok {
				viol("not-top-level-element", e.name, nil, "transfer %d: %s is not an element of Static.Stops", i, e.name)
				continue
			}
			if cell, ok := ti.cell("transfers.txt", tag, e.col); ok {
				if s.Stops[pi].Id != cell {
					viol("wrong-target", e.name, map[string]any{"named": cell, "got": s.Stops[pi].Id}, "transfer names %s %q but points at stop %q", e.col, cell, s.Stops[pi].Id)
				}
			} else {
				c.Skip("entity-without-tagged-row")
			}
		}
	}
	for i := range s.Trips {
		t := &s.Trips[i]
		refs += 2
		c.Cmp(2)
		if t.Route == nil {
			viol("nil-required", "Trip.Route", map[string]any{"trip": t.ID}, "trip %q has no route", t.ID)
		} else if ri, ok := routeIdx[t.Route]; !ok {
			viol("not-top-level-element", "Trip.Route", map[string]any{"trip": t.ID}, "trip %q: Route is not an element of Static.Routes", t.ID)
		} else if cell, ok := ti.cell("trips.txt", t.Headsign, "route_id"); ok && s.Routes[ri].Id != cell {
			viol("wrong-target", "Trip.Route", map[string]any{"trip": t.ID, "named": cell, "got": s.Routes[ri].Id}, "trip %q names route %q but points at route %q", t.ID, cell, s.Routes[ri].Id)
		}
		if t.Service == nil {
			viol("nil-required", "Trip.Service", map[string]any{"trip": t.ID}, "trip %q has no service", t.ID)
		} else if si, ok := svcIdx[t.Service]; !ok {
			viol("not-top-level-element", "Trip.Service", map[string]any{"trip": t.ID}, "trip %q: Service is not an element of Static.Services", t.ID)
		} else if cell, ok := ti.cell("trips.txt", t.Headsign, "service_id"); ok && s.Services[si].Id != cell {
			viol("wrong-target", "Trip.Service", map[string]any{"trip": t.ID, "named": cell, "got": s.Services[si].Id}, "trip %q names service %q but points at service %q", t.ID, cell, s.Services[si].Id)
		}
		if t.Shape != nil {
			refs++
			c.Cmp(1)
			if hi, ok := shapeIdx[t.Shape]; !ok {
				viol("not-top-level-element", "Trip.Shape", map[string]any{"trip": t.ID}, "trip %q: Shape is not an element of Static.Shapes", t.ID)
			} else if cell, ok := ti.cell("trips.txt", t.Headsign, "shape_id"); ok && s.Shapes[hi].ID != cell {
				viol("wrong-target", "Trip.Shape", map[string]any{"trip": t.ID, "named": cell, "got": s.Shapes[hi].ID}, "trip %q names shape %q but points at shape %q", t.ID, cell, s.Shapes[hi].ID)
			}
		}
		for k := range t.StopTimes {
			st := &t.StopTimes[k]
			refs++
			c.Cmp(1)
			if st.Stop == nil {
				viol("nil-required", "StopTime.Stop", map[string]any{"trip": t.ID}, "a stop time of trip %q has no stop", t.ID)
				continue
			}
			pi, ok := stopIdx[st.Stop]
			if !ok {
				viol("not-top-level-element", "StopTime.Stop", map[string]any{"trip": t.ID}, "trip %q: a stop time's Stop is not an element of Static.Stops", t.ID)
				continue
			}
			if cell, ok := ti.cell("stop_times.txt", st.Headsign, "stop_id"); ok {
				if s.Stops[pi].Id != cell {
					viol("wrong-target", "StopTime.Stop", map[string]any{"trip": t.ID, "named": cell, "got": s.Stops[pi].Id}, "stop time names stop %q but points at stop %q", cell, s.Stops[pi].Id)
				}
				if tcell, _ := ti.cell("stop_times.txt", st.Headsign, "trip_id"); tcell != t.ID {
					viol("wrong-target", "StopTime-under-trip", map[string]any{"trip": t.ID, "named": tcell}, "stop time row names trip %q but is attached to trip %q", tcell, t.ID)
				}
			} else {
				c.Skip("entity-without-tagged-row")
			}
		}
	}
	// forest
	cyclic := 0
	for i := range s.Stops {
		cur := &s.Stops[i]
		steps := 0
		for cur.Parent != nil && steps <= len(s.Stops) {
			cur = cur.Parent
			steps++
		}
		c.Cmp(1)
		if steps > len(s.Stops) {
			cyclic++
			if cyclic == 1 {
				viol("parent-cycle", "Stop.Parent", map[string]any{"stop": s.Stops[i].Id, "stop_index": i}, "stop %q is its own ancestor (or leads into a cycle): walking to the root does not terminate", s.Stops[i].Id)
			}
			continue
		}
		// acyclic: the real Root() must agree with the walker
		c.Eval(1)
		if got := s.Stops[i].Root(); got != cur {
			viol("root-mismatch", "Stop.Root", map[string]any{"stop": s.Stops[i].Id}, "Root() of stop %q is not the end of its parent chain", s.Stops[i].Id)
		}
	}
	return refs
}

func runC03(c *core.Ctx) {
	r := c.R
	_, nLarge := c03Counts(c.Tier)
	var m *sgen.Model
	rings := c03RingSizes(c.Tier)
	ringLen := 0
	if c.Index < 2*len(rings) {
		ringLen = rings[c.Index/2]
		m = sgen.Gen(r, sgen.Size{Agencies: 1, Routes: 2, Stops: ringLen + 2, Transfers: 2, Calendars: 1, CalDates: 1, Shapes: 0, ShapePtsPer: 1, Trips: 2, Freqs: 0, StopTimesPer: 3, Exact: true})
		c.Feature("parent-ring-size-sweep")
	} else if k := c.Index - 2*len(rings); c.Thorough() && k < 3 {
		// thorough only: stops.txt of a whole country (a slice that grows past 2^17 elements, tens of thousands of unused
		// capacity slots at the end)
		m = sgen.Gen(r, sgen.Size{Agencies: 1, Routes: 2, Stops: []int{70001, 152967, 239519}[k], Transfers: 4, Calendars: 1, CalDates: 1, Shapes: 0, ShapePtsPer: 1, Trips: 2, Freqs: 0, StopTimesPer: 3, Exact: true})
		c.Feature("huge-stops-file")
	} else if c.Index < nLarge {
		m = sgen.Gen(r, largeSizes[c.Index%len(largeSizes)])
		c.Feature("large-model")
	} else {
		m = sgen.Gen(r, sgen.SmallSize)
	}
	a := sgen.Tables(m)
	sgen.Tag(a)
	nc := r.Intn(7)
	var done []string
	if ringLen > 0 {
		nc = 0
		if sgen.ParentRing(a, ringLen, c.Index%2 == 1, r) {
			done = append(done, fmt.Sprintf("parent-ring=%d", ringLen))
		}
	} else {
		done = sgen.Corrupt(a, r, nc)
	}
	kinds := map[string]bool{}
	for _, d := range done {
		k := d
		if i := strings.IndexAny(k, ":="); i > 0 {
			k = k[:i]
		}
		if strings.Contains(d, "parent_station") {
			k = "stops.txt.parent_station"
		}
		kinds[k] = true
		c.Feature("corruption:" + k)
	}
	b := sgen.Encode(a, &sgen.Presentation{Plain: true})
	for _, inherit := range []bool{false, true} {
		s, err, panicked := safeParseStatic(b, gtfs.ParseStaticOptions{InheritWheelchairBoarding: inherit})
		if panicked != "" {
			c.Skip("ParseStatic-panicked(C05)")
			return
		}
		if err != nil {
			c.Skip("archive-not-accepted")
			return
		}
		c.Eval(1)
		ti := buildTagIndex(a)
		refs := walkStatic(c, s, ti, strings.Join(done, "; "))
		c.Observe("references_checked", refs)
		if refs > 0 && !inherit {
			var ks []string
			for k := range kinds {
				ks = append(ks, k)
			}
			sortStrings(ks)
			c.Shape(fmt.Sprintf("%v a%d r%d s%d t%d tr%d", ks, len(s.Agencies), len(s.Routes), len(s.Stops), len(s.Transfers), len(s.Trips)))
		}
		if ringLen > 0 && !inherit {
			c.Shape(fmt.Sprintf("parent-ring=%d tail-first=%v", ringLen, c.Index%2 == 1))
		}
		if c.WantSample() && nc > 0 && !inherit {
			c.Sample(map[string]any{"corruptions": done, "accepted": map[string]int{"agencies": len(s.Agencies), "routes": len(s.Routes), "stops": len(s.Stops), "transfers": len(s.Transfers), "trips": len(s.Trips), "shapes": len(s.Shapes), "services": len(s.Services)}, "references_checked": refs, "stops.txt": sampleTables(a, 4)["stops.txt"]})
		}
	}
}

func sortStrings(xs []string) {
	for i := 1; i < len(xs); i++ {
		for j := i; j > 0 && xs[j] < xs[j-1]; j-- {
			xs[j], xs[j-1] = xs[j-1], xs[j]
		}
	}
}
