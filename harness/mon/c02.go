package mon

import (
	"fmt"
	"time"

	"github.com/jamespfennell/gtfs"
	gtfsrt "github.com/jamespfennell/gtfs/proto"
	"google.golang.org/protobuf/proto"

	"verifharness/canon"
	"verifharness/core"
	"verifharness/rgen"
)

type zoneOpt struct {
	name string
	loc  *time.Location
}

func mustZone(name string) *time.Location {
	l, err := time.LoadLocation(name)
	if err != nil {
		return time.FixedZone(name, 0)
	}
	return l
}

var c02Zones = []zoneOpt{
	{"nil", nil},
	{"time.UTC", time.UTC},
	{"LoadLocation(UTC)", mustZone("UTC")},
	{"fixed+05:45", time.FixedZone("+0545", 5*3600+45*60)},
	{"fixed-09:30", time.FixedZone("-0930", -(9*3600 + 30*60))},
	{"fixed+14:00", time.FixedZone("+14", 14*3600)},
	{"America/New_York", mustZone("America/New_York")},
	{"Europe/London", mustZone("Europe/London")},
	{"Australia/Lord_Howe", mustZone("Australia/Lord_Howe")},
	{"America/Sao_Paulo", mustZone("America/Sao_Paulo")},
	{"America/Havana", mustZone("America/Havana")},
	{"Asia/Beirut", mustZone("Asia/Beirut")},
}

// c02Opts: trips and vehicles as sets, links left to C04.
var c02Opts = &canon.Options{
	SortPaths:  map[string]bool{"->.Trips": true, "->.Vehicles": true},
	SkipFields: map[string]bool{"Trip.Vehicle": true, "Vehicle.Trip": true},
}

// addUnrelatedNyctData attaches NYCT extension payloads that must be invisible without an extension.
func addUnrelatedNyctData(r *core.Rand, m *gtfsrt.FeedMessage) int {
	n := 0
	for _, e := range m.Entity {
		if tu := e.TripUpdate; tu != nil && r.Chance(1, 3) {
			d := gtfsrt.NyctTripDescriptor_Direction(1 + 2*r.Intn(2))
			proto.SetExtension(tu.Trip, gtfsrt.E_NyctTripDescriptor, &gtfsrt.NyctTripDescriptor{TrainId: rgen.S("06 0123+ PEL/BBR"), IsAssigned: proto.Bool(r.Bool()), Direction: &d})
			for _, u := range tu.StopTimeUpdate {
				if r.Bool() {
					proto.SetExtension(u, gtfsrt.E_NyctStopTimeUpdate, &gtfsrt.NyctStopTimeUpdate{ScheduledTrack: rgen.S("1"), ActualTrack: rgen.S("2")})
				}
			}
			n++
		}
		if a := e.Alert; a != nil && r.Chance(1, 3) {
			ma := &gtfsrt.MercuryAlert{CreatedAt: rgen.U64(core.Pick(r, []uint64{1600000000, 1600000000, 1600000007})), UpdatedAt: rgen.U64(core.Pick(r, []uint64{1600000100, 1600000100, 1600000200})), AlertType: rgen.S(core.Pick(r, []string{"Delays", "Delays", "Planned - Part Suspended"}))}
			if r.Bool() {
				ma.HumanReadableActivePeriod = &gtfsrt.TranslatedString{Translation: []*gtfsrt.TranslatedString_Translation{{Text: rgen.S(core.Pick(r, []string{"Sundays in May", "Weekends", "Until further notice"})), Language: rgen.S("en")}}}
			}
			if r.Chance(1, 3) {
				ma.DisplayBeforeActive = rgen.U64(uint64(core.Pick(r, []int{0, 3600, 7200})))
			}
			proto.SetExtension(a, gtfsrt.E_MercuryAlert, ma)
			for _, sel := range a.InformedEntity {
				if r.Bool() {
					// known priorities, the timetabled no-service ones, and numbers that are in no table (the same few, so that
					// different alerts, feeds and concurrent calls meet the same unknown priority)
					so := core.Pick(r, []string{"GTFS-ID:20", "GTFS-ID:20", "MTASBWY:A:16", "MTASBWY:C:3", "MTASBWY:G:500", "MTASBWY:G:500", "MTASBWY:L:41", "MTASBWY:L:0", "MTASBWY:L:-1", "MTASBWY:7:999999"})
					proto.SetExtension(sel, gtfsrt.E_MercuryEntitySelector, &gtfsrt.MercuryEntitySelector{SortOrder: rgen.S(so)})
				}
			}
			n++
		}
	}
	return n
}

func feedShape(f *rgen.Feed) string {
	tu, vp, al := 0, 0, 0
	for _, e := range f.Msg.Entity {
		switch {
		case e.TripUpdate != nil:
			tu++
		case e.Vehicle != nil:
			vp++
		case e.Alert != nil:
			al++
		}
	}
	return fmt.Sprintf("tu%d vp%d al%d trips%d vehs%d assoc%d idless%d", tu, vp, al, len(f.Trips), len(f.Vehs), len(f.Assoc), len(f.IDLess))
}

func init() {
	core.Register(&core.Property{
		ID:    "C02",
		Level: "exploration",
		Rule: "each case draws a conflict-free feed message (0-5 trips, 0-4 vehicles, 0-3 id-less vehicle positions, 0-3 alerts; one descriptor per trip/vehicle across all mentions; every optional field independently present/absent; timestamps, delays and floats from boundary classes incl. uint64 > MaxInt64-free classes, NaN, -0; unrelated NYCT extension payloads attached) and parses its encoding under several of 12 timezone options (nil, time.UTC, loaded UTC, fixed offsets, DST zones, midnight-switching zones); " +
			"distinct_nontrivial counts distinct (entity-kind counts, universe sizes, association count, zone) signatures of messages with at least one entity",
		Cases: func(tier string) int {
			if tier == "thorough" {
				return 400000 + len(rtSizeCases(tier))
			}
			return 20000 + len(rtSizeCases(tier))
		},
		Run: runC02,
		Assumptions: []string{
			"the message is built as protobuf structs and encoded by protobuf-go (trusted wire encoder); the reference reads the structs, never the bytes",
			"links between trips and vehicles are C04's subject, informed-entity normalisation C12's (only selectors that pass through 1:1 are generated here), vehicle order C06's",
			"start dates without a unique local midnight in the zone are generated, not asserted, and counted",
		},
	})
}

func runC02(c *core.Ctx) {
	r := c.R
	opts := rgen.Opts{MaxTrips: 5, MaxVehs: 4, MaxAlerts: 3, MaxIDLess: 3, PassThroughSelectorsOnly: true}
	sized := false
	if sc := rtSizeCases(c.Tier); c.Index < len(sc) {
		opts, sized = sc[c.Index].opts, true
		c.Feature("size-sweep")
		c.Shape("size-sweep " + sc[c.Index].name)
	}
	f := rgen.GenFeed(r, opts)
	nExt := addUnrelatedNyctData(r, f.Msg)
	if nExt > 0 {
		c.Feature("unrelated-nyct-extension-data")
	}
	for _, ft := range f.Features {
		c.Feature(ft)
	}
	b := rgen.Marshal(f.Msg)
	nz := 4
	if c.Thorough() {
		nz = 8
	}
	if sized {
		nz = 2
	}
	perm := r.Perm(len(c02Zones))
	for _, zi := range perm[:nz] {
		z := c02Zones[zi]
		got, err := gtfs.ParseRealtime(b, &gtfs.ParseRealtimeOptions{Timezone: z.loc})
		c.Eval(1)
		c.Feature("zone:" + z.name)
		if len(f.Msg.Entity) > 0 {
			c.Shape(feedShape(f) + " " + z.name)
		}
		if err != nil {
			c.Violationf("C02|parse-error", map[string]any{"error": err.Error(), "message": prototextOf(f.Msg)}, "ParseRealtime rejected a valid message: %v", err)
			continue
		}
		ref := rgen.Ref(f.Msg, z.loc)
		if ref.UnassertedDates > 0 {
			c.S.Skipped["start-dates-without-unique-local-midnight"] += int64(ref.UnassertedDates)
			rgen.NeutralizeStartDates(ref.RT)
			rgen.NeutralizeStartDates(got)
		}
		want := canon.Dump(ref.RT, c02Opts)
		have := canon.Dump(got, c02Opts)
		c.Cmp(1)
		if path, desc, differ := diffPath(want, have); differ {
			c.Violationf("C02|mismatch|"+path, map[string]any{"zone": z.name, "diff_expected_vs_parsed": desc, "message": prototextOf(f.Msg)},
				"parsed message differs from the wire (zone %s; expected ≠ parsed): %s", z.name, desc)
		}
		// explicit instant/zone check on CreatedAt (the oracle of the statement in its plainest form)
		if ts := f.Msg.Header.Timestamp; ts != nil {
			c.Cmp(1)
			if uint64(got.CreatedAt.Unix()) != *ts {
				c.Violationf("C02|created-at-instant", map[string]any{"zone": z.name, "wire": *ts, "got": got.CreatedAt.Unix()}, "CreatedAt is not the wire instant")
			}
		}
	}
	if c.WantSample() && len(f.Msg.Entity) >= 3 {
		c.Sample(map[string]any{"shape": feedShape(f), "features": f.Features, "message": prototextOf(f.Msg)})
	}
}

// prototextOf renders a message for replay files and samples.
func prototextOf(m proto.Message) string {
	return core.Trunc(prototextMarshal(m), 6000)
}
