package mon

import (
	"fmt"
	"time"

	"github.com/jamespfennell/gtfs"
	"github.com/jamespfennell/gtfs/journal"

	"verifharness/core"
	"verifharness/hgen"
)

const c14ExhaustivePerCase = 100

func c14Lists() [][]string {
	abc := []string{"A", "B", "C"}
	out := [][]string{{}}
	for _, a := range abc {
		out = append(out, []string{a})
	}
	for _, a := range abc {
		for _, b := range abc {
			out = append(out, []string{a, b})
		}
	}
	for _, a := range abc {
		for _, b := range abc {
			for _, cc := range abc {
				out = append(out, []string{a, b, cc})
			}
		}
	}
	return out // 40 lists
}

func c14RouteSizes(tier string) []int {
	var out []int
	max := 1100
	if tier == "thorough" {
		max = 4200
	}
	for _, n := range core.Thresholds(max) {
		if n >= 30 {
			out = append(out, n)
		}
	}
	return out
}

func c14Counts(tier string) (random, exhaustive int) {
	if tier == "thorough" {
		return 1500000, (1 + 40 + 40*40 + 40*40*40 + c14ExhaustivePerCase - 1) / c14ExhaustivePerCase
	}
	return 25000, (40 + 40*40 + c14ExhaustivePerCase - 1) / c14ExhaustivePerCase
}

func init() {
	core.Register(&core.Property{
		ID:    "C14",
		Level: "exploration",
		Rule: "random histories of 1-8 (quick) / 1-14 (thorough) NYCT feeds over 1-3 trips and a 6-stop alphabet (update lists that shrink from the front, grow at the back, are rerouted mid-trip, jump back, are empty, start at an unknown stop, repeat a stop in 20% of the repeat-enabled histories; trips vanish and reappear; arrival/departure/track independently present; updates with and without vehicle), built as protobuf and parsed by the real ParseRealtime; BuildJournal is run on EVERY prefix of the history and an online checker validates the transition between consecutive prefixes; plus the exhaustive small space: every history of <= 2 (quick) / <= 3 (thorough) feeds whose update lists are all sequences of length <= 3 over {A,B,C} (40 lists: 1640 / 65641 histories); " +
			"distinct_nontrivial counts distinct (history shape) signatures for random histories and every enumerated history once",
		Cases: func(tier string) int { a, b := c14Counts(tier); return a + b + 3*len(c14RouteSizes(tier)) },
		Run:   runC14,
		Assumptions: []string{
			"when a stop occurs twice in the previous list, alignment to any occurrence is accepted; when the update's first stop is not in the previous list, or the update is empty, any retained prefix is accepted",
			"trips that are not yet assigned are not part of BuildJournal's output, so their lists are only checked from the first prefix in which they are visible",
			"feed times are taken from the parsed CreatedAt; instants compared with Equal",
		},
	})
}

func timePtrEq(a, b *time.Time) bool {
	if a == nil || b == nil {
		return a == nil && b == nil
	}
	return a.Equal(*b)
}

func strPtrEq(a, b *string) bool {
	if a == nil || b == nil {
		return a == nil && b == nil
	}
	return *a == *b
}

// Journal entries and feed trips are matched by (start instant, trip-id suffix), the identity the
// statement gives; the textual format of TripUID is not assumed.
func journalKey(t *journal.Trip) string {
	suffix := ""
	if len(t.TripID) >= 6 {
		suffix = t.TripID[6:]
	}
	return fmt.Sprintf("%d|%s", t.StartTime.Unix(), suffix)
}

func journalTrips(j *journal.Journal) map[string]*journal.Trip {
	m := map[string]*journal.Trip{}
	for i := range j.Trips {
		m[journalKey(&j.Trips[i])] = &j.Trips[i]
	}
	return m
}

func uidOf(t *gtfs.Trip) string {
	start := t.ID.StartDate.Add(t.ID.StartTime)
	suffix := ""
	if len(t.ID.ID) >= 6 {
		suffix = t.ID.ID[6:]
	}
	return fmt.Sprintf("%d|%s", start.Unix(), suffix)
}

func stopTimesString(l []journal.StopTime) string {
	s := ""
	for _, st := range l {
		mp := "-"
		if st.MarkedPast != nil {
			mp = fmt.Sprint(st.MarkedPast.Unix())
		}
		a, d, tr := "-", "-", "-"
		if st.ArrivalTime != nil {
			a = fmt.Sprint(st.ArrivalTime.Unix())
		}
		if st.DepartureTime != nil {
			d = fmt.Sprint(st.DepartureTime.Unix())
		}
		if st.Track != nil {
			tr = *st.Track
		}
		s += fmt.Sprintf("[%s arr=%s dep=%s trk=%s obs=%d past=%s]", st.StopID, a, d, tr, st.LastObserved.Unix(), mp)
	}
	return s
}

// c14Step checks the transition of one trip's list between prefix n-1 and prefix n.
// prev is nil when the trip was not visible before. upd is the trip as parsed from feed n (nil if absent).
func c14Step(c *core.Ctx, n int, uid string, prev, cur *journal.Trip, upd *gtfs.Trip, t time.Time, wasInPrevFeed, seenBefore bool, detail func() any) {
	viol := func(kind, format string, args ...any) {
		c.Violationf("C14|"+kind, detail(), "prefix %d, trip %s: "+format, append([]any{n, uid}, args...)...)
	}
	if cur == nil {
		if prev != nil {
			viol("trip-vanished-from-journal", "was in the journal after %d feeds and is gone after %d", n-1, n)
		}
		return
	}
	L := cur.StopTimes
	var Lp []journal.StopTime
	if prev != nil {
		Lp = prev.StopTimes
	}
	if upd == nil {
		// (4) the feed does not report the trip
		if prev == nil {
			viol("trip-appeared-without-update", "appeared in the journal in a feed that does not report it")
			return
		}
		c.Cmp(1)
		if len(L) != len(Lp) {
			viol("absent-trip-list-changed", "list length changed from %d to %d although the feed does not report the trip", len(Lp), len(L))
			return
		}
		for i := range L {
			c.Cmp(1)
			a, b := Lp[i], L[i]
			if a.StopID != b.StopID || !timePtrEq(a.ArrivalTime, b.ArrivalTime) || !timePtrEq(a.DepartureTime, b.DepartureTime) || !strPtrEq(a.Track, b.Track) || !a.LastObserved.Equal(b.LastObserved) {
				viol("absent-trip-entry-changed", "entry %d changed although the feed does not report the trip: %s -> %s", i, stopTimesString(Lp[i:i+1]), stopTimesString(L[i:i+1]))
			}
			switch {
			case a.MarkedPast != nil:
				if !timePtrEq(a.MarkedPast, b.MarkedPast) {
					viol("marked-past-overwritten", "entry %d: marked-past changed from %v to %v", i, a.MarkedPast.Unix(), b.MarkedPast)
				}
			case wasInPrevFeed:
				if b.MarkedPast == nil || !b.MarkedPast.Equal(t) {
					viol("not-marked-past-when-trip-disappears", "entry %d should be marked past with the time of this feed (%d), got %v", i, t.Unix(), b.MarkedPast)
				}
			default:
				if b.MarkedPast != nil {
					viol("marked-past-without-cause", "entry %d got marked past although the trip was already absent from the previous feed", i)
				}
			}
		}
		return
	}
	U := upd.StopTimeUpdates
	applied := prev == nil || upd.Vehicle != nil // a visible (hence assigned) trip ignores updates that lack a vehicle
	if !applied {
		c.Cmp(1)
		if stopTimesString(L) != stopTimesString(Lp) {
			viol("ignored-update-changed-list", "the update lacks a vehicle and must be ignored, but the list changed: %s -> %s", stopTimesString(Lp), stopTimesString(L))
		}
		return
	}
	m := len(U)
	c.Cmp(1)
	if len(L) < m {
		viol("list-shorter-than-update", "list has %d entries, the update %d", len(L), m)
		return
	}
	// (1) the list ends with exactly the stops of the update
	for i := 0; i < m; i++ {
		e := L[len(L)-m+i]
		u := U[i]
		c.Cmp(1)
		if e.StopID != c14StopIDOf(u.StopID) {
			viol("tail-stop-mismatch", "tail entry %d is stop %q, the update has %v; list %s", i, e.StopID, strOrNil(u.StopID), stopTimesString(L))
			return
		}
		arr, dep := u.GetArrival().Time, u.GetDeparture().Time
		if !timePtrEq(e.ArrivalTime, arr) || !timePtrEq(e.DepartureTime, dep) || !strPtrEq(e.Track, u.NyctTrack) {
			viol("tail-values-mismatch", "tail entry %d (%s) does not carry the update's arrival/departure/track: %s", i, e.StopID, stopTimesString(L[len(L)-m+i:len(L)-m+i+1]))
		}
		if !e.LastObserved.Equal(t) {
			viol("tail-last-observed", "tail entry %d (%s) last observed %d, feed time %d", i, e.StopID, e.LastObserved.Unix(), t.Unix())
		}
		if e.MarkedPast != nil {
			viol("tail-marked-past", "tail entry %d (%s) is marked past although the update reports it", i, e.StopID)
		}
	}
	head := L[:len(L)-m]
	if prev == nil {
		if !seenBefore {
			c.Cmp(1)
			if len(head) != 0 {
				viol("entries-invented", "first sighting of the trip but %d entries precede the update's stops: %s", len(head), stopTimesString(head))
			}
		} else {
			c.Skip("trip-first-visible-after-unassigned-prefix")
		}
		return
	}
	// (2) the entries before are a prefix of the previous list, unchanged, marked past
	k := len(head)
	c.Cmp(1)
	if k > len(Lp) {
		viol("head-longer-than-previous-list", "%d entries precede the update's stops but the previous list had %d: %s -> %s", k, len(Lp), stopTimesString(Lp), stopTimesString(L))
		return
	}
	for i := 0; i < k; i++ {
		a, b := Lp[i], head[i]
		c.Cmp(1)
		if a.StopID != b.StopID || !timePtrEq(a.ArrivalTime, b.ArrivalTime) || !timePtrEq(a.DepartureTime, b.DepartureTime) || !strPtrEq(a.Track, b.Track) || !a.LastObserved.Equal(b.LastObserved) {
			viol("passed-entry-changed", "passed entry %d changed: %s -> %s", i, stopTimesString(Lp[i:i+1]), stopTimesString(head[i:i+1]))
		}
		if a.MarkedPast != nil {
			if !timePtrEq(a.MarkedPast, b.MarkedPast) {
				viol("marked-past-overwritten", "passed entry %d: marked-past changed from %d to %v", i, a.MarkedPast.Unix(), b.MarkedPast)
			}
		} else if b.MarkedPast == nil || !b.MarkedPast.Equal(t) {
			viol("passed-entry-not-marked-past", "passed entry %d (%s) should be marked past with this feed's time %d, got %v", i, a.StopID, t.Unix(), b.MarkedPast)
		}
	}
	// (3) alignment: if the update's first stop is in the previous list, nothing before it is dropped
	if m > 0 {
		first := c14StopIDOf(U[0].StopID)
		occurs := false
		okAlign := false
		for i := range Lp {
			if Lp[i].StopID == first {
				occurs = true
				if i == k {
					okAlign = true
				}
			}
		}
		c.Cmp(1)
		if occurs && !okAlign {
			viol("passed-stops-dropped", "the update starts at stop %q which is in the previous list, but the retained prefix has %d entries, which is not a position of that stop: %s -> %s", first, k, stopTimesString(Lp), stopTimesString(L))
		}
		if !occurs {
			c.Skip("first-stop-not-in-previous-list-any-prefix-accepted")
		}
	}
}

// c14StopIDOf: a stop time update without stop_id is recorded under the empty stop id.
func c14StopIDOf(p *string) string {
	if p == nil {
		return ""
	}
	return *p
}

// c14RunHistory parses the history, builds the journal for every prefix and checks every step.
func c14RunHistory(c *core.Ctx, h *hgen.History, sampleIt bool) bool {
	feeds, err := h.Parse()
	if err != nil {
		c.Violationf("C14|parse-error", map[string]any{"error": err.Error()}, "ParseRealtime rejected a history feed: %v", err)
		return false
	}
	wide0, wide1 := time.Unix(0, 0), time.Unix(1<<40, 0)
	var prev map[string]*journal.Trip
	seen := map[string]bool{}
	prevFeed := map[string]bool{}
	steps := 0
	for n := 1; n <= len(feeds); n++ {
		j := journal.BuildJournal(&hgen.SliceSource{Feeds: feeds[:n]}, wide0, wide1)
		c.Eval(1)
		cur := journalTrips(j)
		rt := feeds[n-1]
		t := rt.CreatedAt
		inFeed := map[string]*gtfs.Trip{}
		for i := range rt.Trips {
			inFeed[uidOf(&rt.Trips[i])] = &rt.Trips[i]
		}
		detail := func() any {
			var msgs []string
			for i := 0; i < n; i++ {
				msgs = append(msgs, prototextOf(h.Feeds[i].Message()))
			}
			return map[string]any{"history_prefix": msgs}
		}
		uids := map[string]bool{}
		for u := range cur {
			uids[u] = true
		}
		for u := range prev {
			uids[u] = true
		}
		for u := range uids {
			c14Step(c, n, u, prev[u], cur[u], inFeed[u], t, prevFeed[u], seen[u], detail)
			steps++
		}
		prev = cur
		prevFeed = map[string]bool{}
		for u := range inFeed {
			prevFeed[u] = true
			seen[u] = true
		}
	}
	c.Observe("transition_steps_checked", steps)
	if sampleIt && c.WantSample() && len(feeds) >= 3 && prev != nil {
		var lists []string
		for u, tr := range prev {
			lists = append(lists, u+": "+stopTimesString(tr.StopTimes))
		}
		c.Sample(map[string]any{"history": h.Sig(), "feeds": len(feeds), "final_journal_lists": lists, "first_feed": prototextOf(h.Feeds[0].Message())})
	}
	return true
}

func runC14(c *core.Ctx) {
	nRandom, nExh := c14Counts(c.Tier)
	if c.Index >= nRandom+nExh {
		// size sweep: trips whose stop lists have a threshold length (the journal list crosses it while the vehicle
		// advances several stops per feed, vanishes, reappears further on or jumps back)
		k := c.Index - nRandom - nExh
		n := c14RouteSizes(c.Tier)[k/3]
		h := hgen.Gen(c.R, hgen.Opts{MaxFeeds: 12, MaxTrips: 2, AlwaysAssigned: k%3 != 2, RepeatStops: false, RouteLen: n, ExactFeeds: 6 + k%3*3})
		c.Shape(fmt.Sprintf("long-route=%d %s", n, h.Sig()))
		c.Feature("size-sweep:route-length")
		c14RunHistory(c, h, false)
		return
	}
	if c.Index < nRandom {
		maxFeeds := 8
		if c.Thorough() {
			maxFeeds = 14
		}
		h := hgen.Gen(c.R, hgen.Opts{MaxFeeds: maxFeeds, MaxTrips: 3, AlwaysAssigned: c.Index%4 != 0, RepeatStops: c.Index%3 == 0})
		h.ZoneMode = (c.Index / 12) % hgen.ZoneModes
		c.Feature(fmt.Sprintf("feeds-parsed-with-zone-mode:%d", h.ZoneMode))
		c.Shape(h.Sig())
		if c.Index%3 == 0 {
			c.Feature("repeat-stops-enabled")
		}
		if c.Index%4 == 0 {
			c.Feature("late-or-never-assigned-trips")
		}
		c14RunHistory(c, h, true)
		return
	}
	// exhaustive small space
	lists := c14Lists()
	maxLen := 2
	if c.Thorough() {
		maxLen = 3
	}
	base := (c.Index - nRandom) * c14ExhaustivePerCase
	for k := 0; k < c14ExhaustivePerCase; k++ {
		idx := base + k
		// decode idx into a history of length 1..maxLen (length-major order)
		var seq []int
		rem := idx
		found := false
		pow := 1
		for l := 1; l <= maxLen; l++ {
			pow *= len(lists)
			if rem < pow {
				for i := 0; i < l; i++ {
					seq = append(seq, rem%len(lists))
					rem /= len(lists)
				}
				found = true
				break
			}
			rem -= pow
		}
		if !found {
			return
		}
		h := &hgen.History{}
		for fi, li := range seq {
			t := uint64(1700000000 + 60*fi)
			var ups []hgen.Update
			for si, s := range lists[li] {
				a := int64(t) + int64(100*(si+1))
				ups = append(ups, hgen.Update{Stop: s, Arr: &a})
			}
			h.Feeds = append(h.Feeds, hgen.Feed{T: t, Trips: []hgen.TripState{{ID: "060000_A..N", Date: "20231114", Route: "A", Assigned: true, Train: "T1", Updates: ups}}})
		}
		c.Shape(fmt.Sprintf("exhaustive:%v", seq))
		c.Feature(fmt.Sprintf("exhaustive-history-length-%d", len(seq)))
		c14RunHistory(c, h, false)
	}
}
