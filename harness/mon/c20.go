package mon

import (
	"bytes"
	"encoding/csv"
	"fmt"
	"strconv"
	"strings"
	"time"

	"github.com/jamespfennell/gtfs"
	"github.com/jamespfennell/gtfs/journal"

	"verifharness/canon"
	"verifharness/core"
	"verifharness/hgen"
)

func init() {
	core.Register(&core.Property{
		ID:    "C20",
		Level: "exploration",
		Rule: "size sweep: journals with n trips and one trip with n stop times for every n in the threshold list (2^k, 3*2^k, 10^k, each -1/0/+1) up to 8200 (quick) / 70000 (thorough); then journals constructed directly (0-6 trips, 0-8 stop times each, every presence pattern of track/arrival/departure/marked-past on both levels, directions False/True/Unspecified, counters incl. -1 and large, times incl. negative, far future and the zero time, ids and tracks from a charset without comma, double quote, CR, LF but with blanks, tabs, #, ;, non-ASCII, and empty strings) and, every 4th case, the journal BuildJournal produces for a generated NYCT history; both tables are read back with encoding/csv under the header names; " +
			"distinct_nontrivial counts distinct (trips, stop times, presence-pattern set, odd-string classes) signatures of journals with at least one stop time",
		Cases: func(tier string) int {
			if tier == "thorough" {
				return 1200000 + 2*len(c20Sizes(tier))
			}
			return 30000 + 2*len(c20Sizes(tier))
		},
		Run: runC20,
		Assumptions: []string{
			"id and track strings are free of comma, double quote, CR and LF, as the statement requires",
		},
	})
}

var c20Strings = []string{"", "A", "123456_A..N", "L03N", " lead", "trail ", "a b", "tab\there", "#", ";", "a;b#c", "é", "日本", "'", "0", "-1", "  ", "x y", "\\", "{{.}}", "<b>"}

func c20Time(r *core.Rand) time.Time {
	switch r.Intn(8) {
	case 0:
		return time.Time{}
	case 1:
		return time.Unix(-1, 0)
	case 2:
		return time.Unix(-86400*365*10, 0)
	case 3:
		return time.Unix(253402300799, 0)
	case 4:
		return time.Unix(0, 0).In(mustZone("America/New_York"))
	case 5:
		return time.Unix(1700000000, 999999999) // sub-second part must not show
	default:
		return time.Unix(1600000000+int64(r.Intn(200000000)), 0).In(core.Pick(r, []*time.Location{time.UTC, mustZone("America/New_York")}))
	}
}

func c20TimePtr(r *core.Rand) *time.Time {
	if r.Chance(1, 3) {
		return nil
	}
	t := c20Time(r)
	return &t
}

func c20Journal(r *core.Rand) *journal.Journal {
	j := &journal.Journal{}
	nT := r.Intn(7)
	for i := 0; i < nT; i++ {
		t := journal.Trip{
			TripUID: core.Pick(r, c20Strings) + strconv.Itoa(i), TripID: core.Pick(r, c20Strings), RouteID: core.Pick(r, c20Strings),
			DirectionID: gtfs.DirectionID(core.Pick(r, []int{0, 1, 2, 2, 1, 0, 7, 3, 4, 255})), StartTime: c20Time(r), VehicleID: core.Pick(r, c20Strings), IsAssigned: r.Bool(),
			LastObserved: c20Time(r), MarkedPast: c20TimePtr(r), NumUpdates: core.Pick(r, []int{0, 1, 7, -1, 1 << 40}),
			NumScheduleChanges: core.Pick(r, []int{-1, 0, 3, 99999}), NumScheduleRewrites: core.Pick(r, []int{-1, 0, 2}),
		}
		if r.Chance(1, 6) {
			t.TripUID = "" // duplicate / empty keys are still rows
		}
		nS := r.Intn(9)
		for k := 0; k < nS; k++ {
			st := journal.StopTime{StopID: core.Pick(r, c20Strings), ArrivalTime: c20TimePtr(r), DepartureTime: c20TimePtr(r), LastObserved: c20Time(r), MarkedPast: c20TimePtr(r)}
			if r.Chance(2, 3) {
				s := core.Pick(r, c20Strings)
				st.Track = &s
			}
			t.StopTimes = append(t.StopTimes, st)
		}
		j.Trips = append(j.Trips, t)
	}
	return j
}

func unixStr(t time.Time) string { return strconv.FormatInt(t.Unix(), 10) }
func unixPtrStr(t *time.Time) string {
	if t == nil {
		return ""
	}
	return unixStr(*t)
}

func readCSV(b []byte) (header []string, rows [][]string, err error) {
	rd := csv.NewReader(bytes.NewReader(b))
	rd.FieldsPerRecord = -1
	all, err := rd.ReadAll()
	if err != nil {
		return nil, nil, err
	}
	if len(all) == 0 {
		return nil, nil, fmt.Errorf("no header row")
	}
	return all[0], all[1:], nil
}

func c20Check(c *core.Ctx, j *journal.Journal, origin string) {
	before := canon.Dump(j, nil)
	exp, err := j.ExportToCsv()
	c.Eval(1)
	detail := func() any {
		d := map[string]any{"journal": core.Trunc(before, 5000), "origin": origin}
		if exp != nil {
			d["trips_csv"] = core.Trunc(string(exp.TripsCsv), 3000)
			d["stop_times_csv"] = core.Trunc(string(exp.StopTimesCsv), 3000)
		}
		return d
	}
	if err != nil {
		c.Violationf("C20|export-error", detail(), "ExportToCsv failed: %v", err)
		return
	}
	c.Cmp(1)
	if after := canon.Dump(j, nil); after != before {
		_, desc, _ := diffPath(before, after)
		c.Violationf("C20|journal-modified", detail(), "exporting modified the journal: %s", desc)
	}
	exp2, err2 := j.ExportToCsv()
	c.Eval(1)
	c.Cmp(1)
	if err2 != nil || !bytes.Equal(exp.TripsCsv, exp2.TripsCsv) || !bytes.Equal(exp.StopTimesCsv, exp2.StopTimesCsv) {
		c.Violationf("C20|export-not-repeatable", detail(), "two exports of the same journal differ")
	}
	// trips table
	th, trows, err := readCSV(exp.TripsCsv)
	if err != nil {
		c.Violationf("C20|trips-csv-unparseable", detail(), "trips table does not parse as CSV: %v", err)
		return
	}
	col := func(h []string, name string) int {
		for i, x := range h {
			if x == name {
				return i
			}
		}
		return -1
	}
	get := func(h []string, row []string, name string) (string, bool) {
		i := col(h, name)
		if i < 0 || i >= len(row) {
			return "", false
		}
		return row[i], true
	}
	c.Cmp(1)
	if len(trows) != len(j.Trips) {
		c.Violationf("C20|trips-row-count", detail(), "trips table has %d rows, the journal %d trips", len(trows), len(j.Trips))
		return
	}
	for i := range j.Trips {
		t := &j.Trips[i]
		dir := ""
		switch t.DirectionID {
		case gtfs.DirectionID_False:
			dir = "0"
		case gtfs.DirectionID_True:
			dir = "1"
		}
		want := map[string]string{
			"trip_uid": t.TripUID, "trip_id": t.TripID, "route_id": t.RouteID, "direction_id": dir, "start_time": unixStr(t.StartTime), "vehicle_id": t.VehicleID,
			"last_observed": unixStr(t.LastObserved), "marked_past": unixPtrStr(t.MarkedPast), "num_updates": strconv.Itoa(t.NumUpdates),
			"num_schedule_changes": strconv.Itoa(t.NumScheduleChanges), "num_schedule_rewrites": strconv.Itoa(t.NumScheduleRewrites),
		}
		c.Cmp(1)
		if len(trows[i]) != len(th) {
			c.Violationf("C20|trips-row-width", detail(), "trips row %d has %d cells, the header %d", i, len(trows[i]), len(th))
			continue
		}
		for name, w := range want {
			g, ok := get(th, trows[i], name)
			c.Cmp(1)
			if !ok || g != w {
				c.Violationf("C20|trips-cell|"+name, detail(), "trips row %d, column %s: %q, expected %q", i, name, g, w)
			}
		}
	}
	// stop times table
	sh, srows, err := readCSV(exp.StopTimesCsv)
	if err != nil {
		c.Violationf("C20|stop-times-csv-unparseable", detail(), "stop-times table does not parse as CSV: %v", err)
		return
	}
	total := 0
	for i := range j.Trips {
		total += len(j.Trips[i].StopTimes)
	}
	c.Cmp(1)
	if len(srows) != total {
		c.Violationf("C20|stop-times-row-count", detail(), "stop-times table has %d rows, the journal %d stop times", len(srows), total)
		return
	}
	k := 0
	for i := range j.Trips {
		for s := range j.Trips[i].StopTimes {
			st := &j.Trips[i].StopTimes[s]
			track := ""
			if st.Track != nil {
				track = *st.Track
			}
			want := map[string]string{
				"trip_uid": j.Trips[i].TripUID, "stop_id": st.StopID, "track": track, "arrival_time": unixPtrStr(st.ArrivalTime), "departure_time": unixPtrStr(st.DepartureTime),
				"last_observed": unixStr(st.LastObserved), "marked_past": unixPtrStr(st.MarkedPast),
			}
			c.Cmp(1)
			if len(srows[k]) != len(sh) {
				c.Violationf("C20|stop-times-row-width", detail(), "stop-times row %d has %d cells, the header %d", k, len(srows[k]), len(sh))
				k++
				continue
			}
			for name, w := range want {
				g, ok := get(sh, srows[k], name)
				c.Cmp(1)
				if !ok || g != w {
					c.Violationf("C20|stop-times-cell|"+name, detail(), "stop-times row %d (trip %d, stop %d), column %s: %q, expected %q", k, i, s, name, g, w)
				}
			}
			k++
		}
	}
}

// c20CellLens: lengths of one long cell (around the usual line-buffer sizes).
var c20CellLens = []int{255, 256, 1023, 1024, 4095, 4096, 4097, 8192, 16384, 32768, 65535, 65536, 65537, 70000, 131072, 262145}

// c20Sizes: journal sizes swept over the threshold list (trip count, and stop times of one trip).
func c20Sizes(tier string) []int {
	if tier == "thorough" {
		return core.Thresholds(70000)
	}
	return core.Thresholds(8200)
}

func runC20(c *core.Ctx) {
	r := c.R
	if sizes := c20Sizes(c.Tier); c.Index < 2*len(sizes) {
		n := sizes[c.Index/2]
		j := &journal.Journal{}
		if c.Index%2 == 0 {
			// n trips, each with 0-2 stop times (the last trips always have some)
			for i := 0; i < n; i++ {
				t := journal.Trip{TripUID: fmt.Sprintf("%d_u", i), TripID: fmt.Sprintf("%06d_A..N", i%600000), RouteID: "A", DirectionID: gtfs.DirectionID(i % 3), StartTime: time.Unix(1700000000+int64(i), 0), LastObserved: time.Unix(1700000500, 0), NumUpdates: i}
				for k := 0; k < 1+i%2; k++ {
					a := time.Unix(1700000000+int64(60*k), 0)
					t.StopTimes = append(t.StopTimes, journal.StopTime{StopID: fmt.Sprintf("S%d", k), ArrivalTime: &a, LastObserved: a})
				}
				j.Trips = append(j.Trips, t)
			}
			c.Feature("size-sweep:trips")
			c.Shape(fmt.Sprintf("size-sweep trips=%d", n))
		} else {
			t := journal.Trip{TripUID: "1_u", TripID: "000001_A..N", StartTime: time.Unix(1700000000, 0), LastObserved: time.Unix(1700000500, 0)}
			for k := 0; k < n; k++ {
				a := time.Unix(1700000000+int64(k), 0)
				t.StopTimes = append(t.StopTimes, journal.StopTime{StopID: fmt.Sprintf("S%d", k), DepartureTime: &a, LastObserved: a})
			}
			j.Trips = []journal.Trip{{TripUID: "0_u", LastObserved: time.Unix(5, 0)}, t}
			c.Feature("size-sweep:stop-times-of-one-trip")
			c.Shape(fmt.Sprintf("size-sweep stops=%d", n))
		}
		c20Check(c, j, fmt.Sprintf("size sweep n=%d", n))
		return
	}
	if k := c.Index - 2*len(c20Sizes(c.Tier)); k < len(c20CellLens) {
		// long cells: one id or track of a threshold length (a row longer than a 4 KiB / 64 KiB line buffer), ASCII without
		// CSV metacharacters, in the middle of a small journal
		n := c20CellLens[k]
		long := strings.Repeat("x", n-1) + "y"
		a := time.Unix(1700000100, 0)
		mk := func(uid string) journal.Trip {
			return journal.Trip{TripUID: uid, TripID: "000001_A..N", RouteID: "A", VehicleID: "v", StartTime: time.Unix(1700000000, 0), LastObserved: time.Unix(1700000500, 0),
				StopTimes: []journal.StopTime{{StopID: "S1", ArrivalTime: &a, LastObserved: a}, {StopID: "S2", DepartureTime: &a, LastObserved: a}}}
		}
		j := &journal.Journal{Trips: []journal.Trip{mk("1_u"), mk("2_u"), mk("3_u")}}
		switch k % 4 {
		case 0:
			tr := long
			j.Trips[1].StopTimes[0].Track = &tr
		case 1:
			j.Trips[1].StopTimes[1].StopID = long
		case 2:
			j.Trips[1].VehicleID = long
		default:
			q := n / 4
			j.Trips[1].TripUID, j.Trips[1].TripID, j.Trips[1].RouteID, j.Trips[1].VehicleID = long[:q], long[:q], long[:q], long[:n-3*q]
		}
		c.Feature("long-cell")
		c.Shape(fmt.Sprintf("long-cell len=%d where=%d", n, k%4))
		c20Check(c, j, fmt.Sprintf("long cell of %d bytes", n))
		return
	}
	if c.Index%4 == 3 {
		h := hgen.Gen(r, hgen.Opts{MaxFeeds: 8, MaxTrips: 4, AlwaysAssigned: true, RepeatStops: true})
		feeds, err := h.Parse()
		if err != nil {
			c.Skip("history-not-parsed")
			return
		}
		j := journal.BuildJournal(&hgen.SliceSource{Feeds: feeds}, time.Unix(0, 0), time.Unix(1<<40, 0))
		n := 0
		for i := range j.Trips {
			n += len(j.Trips[i].StopTimes)
		}
		if n > 0 {
			c.Shape(fmt.Sprintf("history-journal trips%d stops%d", len(j.Trips), n))
		}
		c.Feature("journal-from-history")
		c20Check(c, j, "BuildJournal over "+h.Sig())
		return
	}
	j := c20Journal(r)
	n, pat, odd := 0, 0, 0
	for i := range j.Trips {
		if j.Trips[i].MarkedPast != nil {
			pat |= 1
		}
		for _, st := range j.Trips[i].StopTimes {
			n++
			if st.Track != nil {
				pat |= 2
			}
			if st.ArrivalTime == nil {
				pat |= 4
			}
			if st.DepartureTime == nil {
				pat |= 8
			}
			if st.MarkedPast != nil {
				pat |= 16
			}
			if st.StopID == "" || st.StopID[0] == ' ' {
				odd |= 1
			}
		}
	}
	if n > 0 {
		c.Shape(fmt.Sprintf("direct trips%d stops%d pat%d odd%d", len(j.Trips), n, pat, odd))
	}
	c.Feature("journal-constructed-directly")
	c20Check(c, j, "constructed")
	if c.WantSample() && n >= 3 {
		exp, _ := j.ExportToCsv()
		if exp != nil {
			c.Sample(map[string]any{"trips": len(j.Trips), "stop_times": n, "trips_csv": core.Trunc(string(exp.TripsCsv), 1200), "stop_times_csv": core.Trunc(string(exp.StopTimesCsv), 1200)})
		}
	}
}
