package mon

import (
	"encoding/json"
	"fmt"
	"sort"
	"strings"
	"time"

	"github.com/jamespfennell/gtfs"
	"github.com/jamespfennell/gtfs/extensions/nyctalerts"
	gtfsrt "github.com/jamespfennell/gtfs/proto"
	"google.golang.org/protobuf/proto"

	"verifharness/canon"
	"verifharness/core"
	"verifharness/rgen"
)

var c17Policies = []nyctalerts.ElevatorAlertsDeduplicationPolicy{nyctalerts.NoDeduplication, nyctalerts.DeduplicateInStation, nyctalerts.DeduplicateInComplex}

// c17Configs enumerates all 24 option combinations.
func c17Configs() []nyctalerts.ExtensionOpts {
	var out []nyctalerts.ExtensionOpts
	for _, p := range c17Policies {
		for b := 0; b < 8; b++ {
			out = append(out, nyctalerts.ExtensionOpts{ElevatorAlertsDeduplicationPolicy: p, ElevatorAlertsInformUsingStationIDs: b&1 != 0, SkipTimetabledNoServiceAlerts: b&2 != 0, AddNyctMetadata: b&4 != 0})
		}
	}
	return out
}

// the documented priority -> effect mapping, written out from the extension's documentation table
var c17Effect = map[int]gtfs.AlertEffect{
	1: gtfs.NoService, 2: gtfs.ReducedService, 3: gtfs.ReducedService, 4: gtfs.ReducedService, 5: gtfs.ModifiedService, 6: gtfs.ModifiedService,
	7: gtfs.ModifiedService, 8: gtfs.ModifiedService, 9: gtfs.AdditionalService, 10: gtfs.ModifiedService, 11: gtfs.ModifiedService, 12: gtfs.ModifiedService,
	13: gtfs.ModifiedService, 14: gtfs.ModifiedService, 15: gtfs.ReducedService, 16: gtfs.ModifiedService, 17: gtfs.ModifiedService, 18: gtfs.ModifiedService,
	19: gtfs.SignificantDelays, 20: gtfs.SignificantDelays, 21: gtfs.ModifiedService, 22: gtfs.ModifiedService, 23: gtfs.ModifiedService, 24: gtfs.ModifiedService,
	25: gtfs.ReducedService, 26: gtfs.ModifiedService, 27: gtfs.SignificantDelays, 28: gtfs.ModifiedService, 29: gtfs.ModifiedService, 30: gtfs.SignificantDelays,
	31: gtfs.ModifiedService, 32: gtfs.ModifiedService, 33: gtfs.ModifiedService, 34: gtfs.ModifiedService, 35: gtfs.ModifiedService, 36: gtfs.ModifiedService,
	37: gtfs.ReducedService, 38: gtfs.ModifiedService, 39: gtfs.NoService, 40: gtfs.NoService,
}

// Station and elevator ids share a tight alphabet on purpose: many (output id, stop id) pairs then
// concatenate to the same text although they are different pairs (e.g. elevator 7 at 2R5N vs elevator 72 at R5N).
var c17Stations = []string{"A27", "A28", "A2N", "L03", "E01", "R1S", "127", "a27", "ABS", "2R5", "R5N", "12R", "2RN", "NNN", "1NN", "N12", "22N",
	// station ids that contain the marker text of the id format itself
	"EL1", "AEL", "1EL"}
var c17Elevators = []string{"123", "1", "X9", "12 B", "", "700", "123", "7", "72", "12", "2", "N", "1N", "2R", "71"}

type c17Alert struct {
	entityID string
	elevator bool
	station  string
	platform string // station + N/S/""
	elev     string
	// non-elevator
	priorities []int // parsed valid priorities (any number), in selector order; -1 for selectors without usable priority
	mercury    *gtfsrt.MercuryAlert
}

func c17Gen(r *core.Rand) (*gtfsrt.FeedMessage, []c17Alert) {
	m := &gtfsrt.FeedMessage{Header: &gtfsrt.FeedHeader{GtfsRealtimeVersion: rgen.S("2.0"), Timestamp: rgen.U64(1700000000)}}
	var info []c17Alert
	nSt := 1 + r.Intn(5)
	stations := r.Perm(len(c17Stations))[:nSt]
	nEl := 1 + r.Intn(3)
	if r.Chance(1, 3) {
		// overlap-heavy feed: only the tight-alphabet ids
		nSt = 2 + r.Intn(4)
		stations = stations[:0]
		for _, j := range r.Perm(8)[:nSt] {
			stations = append(stations, 9+j)
		}
		nEl = 2 + r.Intn(4)
	}
	used := map[string]bool{}
	add := func(id string, a *gtfsrt.Alert, ci c17Alert) {
		if used[id] && !ci.elevator {
			return
		}
		used[id] = true
		ci.entityID = id
		m.Entity = append(m.Entity, &gtfsrt.FeedEntity{Id: rgen.S(id), Alert: a})
		info = append(info, ci)
	}
	nElev := r.Intn(9)
	for k := 0; k < nElev; k++ {
		st := c17Stations[stations[r.Intn(nSt)]]
		pl := st + core.Pick(r, []string{"N", "S", "", "N", "S"})
		el := c17Elevators[r.Intn(nEl)]
		if r.Chance(1, 6) {
			el = core.Pick(r, c17Elevators)
		}
		if stations[0] >= 9 && nEl >= 2 {
			el = c17Elevators[7+r.Intn(8)]
		}
		a := &gtfsrt.Alert{}
		rgen.GenAlertBody(r, a)
		// the wire informed entity of MTA elevator alerts is the platform
		a.InformedEntity = []*gtfsrt.EntitySelector{{StopId: rgen.S(pl)}}
		if r.Chance(1, 3) {
			// an elevator alert whose wire selector carries a Mercury priority (incl. the timetabled no-service ones):
			// the priority rules are for the OTHER alerts; an elevator alert still joins its group
			pr := core.Pick(r, []int{2, 3, 4, 2, 3, 4, 1, 5, 16, 40})
			proto.SetExtension(a.InformedEntity[0], gtfsrt.E_MercuryEntitySelector, &gtfsrt.MercuryEntitySelector{SortOrder: rgen.S(fmt.Sprintf("MTASBWY:%s:%d", st, pr))})
		}
		if r.Chance(1, 4) {
			a.InformedEntity = append(a.InformedEntity, &gtfsrt.EntitySelector{RouteId: rgen.S("A")})
		}
		add(pl+"#EL"+el, a, c17Alert{elevator: true, station: st, platform: pl, elev: el})
	}
	if r.Chance(1, 4) {
		// constructed pairs whose (output id, stop id) texts collide when glued together without a separator:
		// elevator e at platform cXYN  vs  elevator e+c at station XYN;  elevator e at NNNN vs elevator e+N at NNN
		e := core.Pick(r, []string{"7", "1", "", "12"})
		var pairs [][2]c17Alert
		s := string([]byte{"12AR"[r.Intn(4)], "2R5N"[r.Intn(4)], "5NR1"[r.Intn(4)]})
		pairs = append(pairs, [2]c17Alert{
			{elevator: true, station: s, platform: s + "N", elev: e},
			{elevator: true, station: s[1:] + "N", platform: s[1:] + "N", elev: e + s[:1]},
		})
		z := core.Pick(r, []string{"NNN", "SSS"})
		pairs = append(pairs, [2]c17Alert{
			{elevator: true, station: z, platform: z + z[:1], elev: e},
			{elevator: true, station: z, platform: z, elev: e + z[:1]},
		})
		for _, p := range pairs {
			order := []int{0, 1}
			if r.Bool() {
				order = []int{1, 0}
			}
			for _, i := range order {
				ci := p[i]
				a := &gtfsrt.Alert{InformedEntity: []*gtfsrt.EntitySelector{{StopId: rgen.S(ci.platform)}}}
				add(ci.platform+"#EL"+ci.elev, a, ci)
			}
		}
	}
	nOther := r.Intn(6)
	for k := 0; k < nOther; k++ {
		a := &gtfsrt.Alert{}
		rgen.GenAlertBody(r, a)
		ci := c17Alert{}
		id := fmt.Sprintf("%s%d", core.Pick(r, []string{"lmm:planned_work:", "lmm:alert:", "lmm:other:", "plain-", "LMM:ALERT:", "xlmm:alert:"}), k)
		ns := r.Intn(4)
		for j := 0; j < ns; j++ {
			sel := &gtfsrt.EntitySelector{RouteId: rgen.S(core.Pick(r, []string{"A", "C", "6"}))}
			if r.Chance(3, 4) {
				var so string
				pr := -1
				switch r.Intn(8) {
				case 0:
					so = "MTASBWY:A" // no usable priority
					if i := strings.LastIndex(so, ":"); i >= 0 {
						pr = -1
					}
				case 1:
					so = "nocolon"
				case 2:
					pr = core.Pick(r, []int{0, 41, 99, -3})
					so = fmt.Sprintf("MTASBWY:A:%d", pr)
				case 3:
					pr = core.Pick(r, []int{2, 3, 4})
					so = fmt.Sprintf("MTASBWY:C:%d", pr)
				default:
					pr = 1 + r.Intn(40)
					// the priority is a decimal number; zero padding does not change its value
					so = fmt.Sprintf(core.Pick(r, []string{"MTASBWY:%s:%d", "MTASBWY:%s:%d", "MTASBWY:%s:%02d", "MTASBWY:%s:%03d"}), *sel.RouteId, pr)
				}
				proto.SetExtension(sel, gtfsrt.E_MercuryEntitySelector, &gtfsrt.MercuryEntitySelector{SortOrder: rgen.S(so)})
				ci.priorities = append(ci.priorities, pr)
			}
			a.InformedEntity = append(a.InformedEntity, sel)
		}
		if r.Bool() {
			ma := &gtfsrt.MercuryAlert{CreatedAt: rgen.U64(1600000000 + uint64(r.Intn(1000000))), UpdatedAt: rgen.U64(1650000000 + uint64(r.Intn(1000000))), AlertType: rgen.S(core.Pick(r, []string{"Delays", "Planned - Part Suspended"}))}
			if r.Chance(1, 5) {
				// timestamps at the edges: zero, the last second of year 9999 and beyond it (milliseconds mistaken for seconds, 2^62)
				x := core.Pick(r, []uint64{0, 1, 253402300799, 253402300800, 1700000000000, 1 << 62})
				if r.Bool() {
					ma.CreatedAt = &x
				} else {
					ma.UpdatedAt = &x
				}
			}
			if r.Bool() {
				ma.DisplayBeforeActive = rgen.U64(uint64(r.Intn(7200)))
			}
			switch r.Intn(4) {
			case 0, 1:
				ma.HumanReadableActivePeriod = &gtfsrt.TranslatedString{Translation: []*gtfsrt.TranslatedString_Translation{{Text: rgen.S("Sundays in May"), Language: rgen.S("en")}}}
			case 2:
				ma.HumanReadableActivePeriod = &gtfsrt.TranslatedString{} // present but empty
			}
			if r.Chance(1, 4) {
				ma.ScreensSummary = &gtfsrt.TranslatedString{}
				ma.ServicePlanNumber = []string{""}
			}
			proto.SetExtension(a, gtfsrt.E_MercuryAlert, ma)
			ci.mercury = ma
		}
		add(id, a, ci)
	}
	// scatter
	perm := r.Perm(len(m.Entity))
	ents := make([]*gtfsrt.FeedEntity, len(perm))
	inf := make([]c17Alert, len(perm))
	for i, j := range perm {
		ents[i], inf[i] = m.Entity[j], info[j]
	}
	m.Entity = ents
	return m, inf
}

func init() {
	core.Register(&core.Property{
		ID:    "C17",
		Level: "exploration",
		Rule: "each case draws an alert feed (1-5 stations with 3-character ids some sharing a prefix or ending in N/S, platforms N/S/none, 1-3 elevators incl. an empty elevator id, duplicates of the same platform, members of a group scattered among 0-5 non-elevator alerts with id prefixes lmm:planned_work / lmm:alert / others, Mercury selectors with every priority 1-40, unknown numbers and sort orders without usable priority, Mercury alert extension present/absent) and parses it, and a random permutation of it, under all 24 option combinations with a fresh extension value per parse, and once with no extension; " +
			"distinct_nontrivial counts distinct (stations, elevator alerts, groups per policy, other alerts, configuration) signatures of feeds with at least one group of two or more members or one Mercury selector",
		Cases: func(tier string) int {
			if tier == "thorough" {
				return 120000
			}
			return 5000
		},
		Run: runC17,
		Assumptions: []string{
			"elevator output alerts are compared as a set keyed by output id; only id, cause, effect and the set of informed stops are asserted for them",
			"when several Mercury selectors of one alert carry different mapped priorities, any of their table effects is accepted",
			"a fresh extension value is used for every parse (reuse is C06's subject)",
		},
	})
}

func runC17(c *core.Ctx) {
	r := c.R
	m, info := c17Gen(r)
	perm := rgen.Permute(m, r.Perm(len(m.Entity)))
	zo := c02Zones[r.Intn(len(c02Zones))] // the same timezone option on both sides of the differential
	c.Feature("zone:" + zo.name)
	base, err := gtfs.ParseRealtime(rgen.Marshal(m), &gtfs.ParseRealtimeOptions{Timezone: zo.loc})
	c.Eval(1)
	if err != nil {
		c.Violationf("C17|parse-error", map[string]any{"error": err.Error()}, "ParseRealtime rejected the feed: %v", err)
		return
	}
	baseByID := map[string]*gtfs.Alert{}
	for i := range base.Alerts {
		baseByID[base.Alerts[i].ID] = &base.Alerts[i]
	}
	nElev, nMerc := 0, 0
	for _, ci := range info {
		if ci.elevator {
			nElev++
		}
		nMerc += len(ci.priorities)
	}
	for ci, opts := range c17Configs() {
		// expected groups
		groups := map[string]map[string]bool{}
		for _, a := range info {
			if !a.elevator {
				continue
			}
			var out string
			switch opts.ElevatorAlertsDeduplicationPolicy {
			case nyctalerts.DeduplicateInStation:
				out = a.station + "#EL" + a.elev
			case nyctalerts.DeduplicateInComplex:
				out = "elevator:EL" + a.elev
			default:
				out = a.platform + "#EL" + a.elev
			}
			if groups[out] == nil {
				groups[out] = map[string]bool{}
			}
			if opts.ElevatorAlertsInformUsingStationIDs {
				groups[out][a.station] = true
			} else {
				groups[out][a.platform] = true
			}
		}
		multi := false
		for _, g := range groups {
			if len(g) > 1 {
				multi = true
			}
		}
		for pi, msg := range []*gtfsrt.FeedMessage{m, perm} {
			rt, err := gtfs.ParseRealtime(rgen.Marshal(msg), &gtfs.ParseRealtimeOptions{Timezone: zo.loc, Extension: nyctalerts.Extension(opts)})
			c.Eval(1)
			detail := func() any {
				return map[string]any{"options": fmt.Sprintf("%+v", opts), "message": prototextOf(msg)}
			}
			if err != nil {
				c.Violationf("C17|parse-error", detail(), "ParseRealtime rejected the feed: %v", err)
				continue
			}
			if multi || nMerc > 0 {
				c.Shape(fmt.Sprintf("elev%d groups%d other%d merc%d cfg%d perm%d", nElev, len(groups), len(info)-nElev, nMerc, ci, pi))
			}
			// elevator alerts
			seenOut := map[string]int{}
			var nonElev []*gtfs.Alert
			for i := range rt.Alerts {
				a := &rt.Alerts[i]
				if _, ok := groups[a.ID]; ok {
					seenOut[a.ID]++
					c.Cmp(3)
					if a.Cause != gtfs.Maintenance || a.Effect != gtfs.AccessibilityIssue {
						c.Violationf("C17|elevator-cause-effect", detail(), "elevator alert %q has cause %v effect %v", a.ID, a.Cause, a.Effect)
					}
					got := map[string]bool{}
					clean := true
					for _, ie := range a.InformedEntities {
						if ie.StopID == nil || ie.AgencyID != nil || ie.RouteID != nil || ie.TripID != nil {
							clean = false
							continue
						}
						got[*ie.StopID] = true
					}
					if !clean || len(got) != len(a.InformedEntities) || !sameSet(got, groups[a.ID]) {
						c.Violationf(fmt.Sprintf("C17|elevator-informed-stops|%s|station-ids=%v", opts.ElevatorAlertsDeduplicationPolicy, opts.ElevatorAlertsInformUsingStationIDs), detail(),
							"elevator alert %q informs %v, want exactly %v", a.ID, keys(got), keys(groups[a.ID]))
					}
					continue
				}
				nonElev = append(nonElev, a)
			}
			for out := range groups {
				c.Cmp(1)
				if seenOut[out] != 1 {
					c.Violationf(fmt.Sprintf("C17|elevator-group-count|%s", opts.ElevatorAlertsDeduplicationPolicy), detail(), "group %q produced %d output alerts, want exactly 1", out, seenOut[out])
				}
			}
			// non-elevator alerts, in feed order
			var wantOrder []string
			expect := map[string]c17Alert{}
			for _, e := range msg.Entity {
				for _, a := range info {
					if a.entityID == e.GetId() && !a.elevator {
						dropped := false
						if opts.SkipTimetabledNoServiceAlerts {
							for _, p := range a.priorities {
								if p == 2 || p == 3 || p == 4 {
									dropped = true
								}
							}
						}
						if !dropped {
							wantOrder = append(wantOrder, a.entityID)
						}
						expect[a.entityID] = a
					}
				}
			}
			var gotOrder []string
			for _, a := range nonElev {
				gotOrder = append(gotOrder, a.ID)
			}
			c.Cmp(1)
			if strings.Join(wantOrder, "\x00") != strings.Join(gotOrder, "\x00") {
				c.Violationf(fmt.Sprintf("C17|non-elevator-alerts-kept|skip=%v", opts.SkipTimetabledNoServiceAlerts), detail(), "non-elevator alerts in the result: %q, want %q", gotOrder, wantOrder)
				continue
			}
			for _, a := range nonElev {
				ex := expect[a.ID]
				b := baseByID[a.ID]
				if b == nil {
					continue
				}
				want := *b
				// cause from the id prefix
				if strings.HasPrefix(a.ID, "lmm:planned_work") {
					want.Cause = gtfs.Maintenance
				} else if strings.HasPrefix(a.ID, "lmm:alert") {
					want.Cause = gtfs.TechnicalProblem
				}
				// effect from the Mercury priority
				accept := map[gtfs.AlertEffect]bool{}
				for _, p := range ex.priorities {
					if e, ok := c17Effect[p]; ok {
						accept[e] = true
					}
				}
				c.Cmp(3)
				if len(accept) > 0 {
					if !accept[a.Effect] {
						c.Violationf("C17|effect-from-priority", detail(), "alert %q: effect %v, priorities %v allow %v", a.ID, a.Effect, ex.priorities, accept)
					}
					want.Effect = a.Effect
					if len(accept) > 1 {
						c.Skip("effect-under-disagreeing-priorities-any-accepted")
					}
				}
				// metadata
				wantMeta := opts.AddNyctMetadata && ex.mercury != nil
				if wantMeta && (ex.mercury.GetCreatedAt() > 253402128000 || ex.mercury.GetUpdatedAt() > 253402128000) {
					// an instant beyond year 9999 (in whatever zone the process runs in: two days of margin) has no JSON representation; whether a metadata entry is produced for it is not
					// asserted - the alert itself (presence, cause, effect, everything else) is
					c.Skip("metadata-for-instants-beyond-year-9999-not-asserted")
					wantMeta = false
					if n := len(a.Description); n == len(b.Description)+1 && a.Description[n-1].Language == nyctalerts.MetadataLanguage {
						want.Description = append(append([]gtfs.AlertText(nil), b.Description...), a.Description[n-1])
					}
				}
				if wantMeta {
					if len(a.Description) != len(b.Description)+1 {
						c.Violationf("C17|metadata-missing", detail(), "alert %q: metadata requested and Mercury alert present, but description has %d entries (base %d)", a.ID, len(a.Description), len(b.Description))
						continue
					}
					last := a.Description[len(a.Description)-1]
					var md nyctalerts.Metadata
					if last.Language != nyctalerts.MetadataLanguage || json.Unmarshal([]byte(last.Text), &md) != nil {
						c.Violationf("C17|metadata-malformed", detail(), "alert %q: appended description is not the metadata entry", a.ID)
						continue
					}
					if uint64(md.CreatedAt.Unix()) != ex.mercury.GetCreatedAt() || uint64(md.UpdatedAt.Unix()) != ex.mercury.GetUpdatedAt() || md.DisplayBeforeActive != time.Duration(ex.mercury.GetDisplayBeforeActive())*time.Second {
						c.Violationf("C17|metadata-values", detail(), "alert %q: metadata %+v does not match the Mercury alert", a.ID, md)
					}
					hr := ""
					if t := ex.mercury.GetHumanReadableActivePeriod().GetTranslation(); len(t) > 0 {
						hr = t[0].GetText()
					}
					if md.HumanReadableActivePeriod != hr {
						c.Violationf("C17|metadata-values", detail(), "alert %q: human readable period %q, want %q", a.ID, md.HumanReadableActivePeriod, hr)
					}
					want.Description = append(append([]gtfs.AlertText(nil), b.Description...), last)
				}
				if path, desc, differ := diffPath(canon.Dump(&want, nil), canon.Dump(a, nil)); differ {
					kind := "C17|nyct-alert-mismatch|"
					if len(ex.priorities) == 0 && ex.mercury == nil {
						kind = "C17|plain-alert-not-passed-through|"
					} else if !wantMeta && strings.Contains(path, "Description") {
						kind = "C17|metadata-not-requested-but-added|"
					}
					c.Violationf(kind+path, detail(), "alert %q differs from the expected mapping of the no-extension parse: %s", a.ID, desc)
				}
			}
			if c.WantSample() && multi && ci == 9 && pi == 0 {
				c.Sample(map[string]any{"options": fmt.Sprintf("%+v", opts), "groups": groupsJSON(groups), "message": prototextOf(msg)})
			}
		}
	}
}

func sameSet(a, b map[string]bool) bool {
	if len(a) != len(b) {
		return false
	}
	for k := range a {
		if !b[k] {
			return false
		}
	}
	return true
}

func keys(m map[string]bool) []string {
	var out []string
	for k := range m {
		out = append(out, k)
	}
	sort.Strings(out)
	return out
}

func groupsJSON(g map[string]map[string]bool) map[string][]string {
	out := map[string][]string{}
	for k, v := range g {
		out[k] = keys(v)
	}
	return out
}
