package mon

import (
	"bytes"
	"crypto/sha256"
	"fmt"
	"strings"
	"time"

	"github.com/jamespfennell/gtfs"
	gtfsrt "github.com/jamespfennell/gtfs/proto"

	"verifharness/canon"
	"verifharness/core"
)

// recHash is a hash.Hash that records everything written to it. Write
// boundaries are irrelevant to real hashes, so only the concatenation counts.
type recHash struct{ b bytes.Buffer }

func (h *recHash) Write(p []byte) (int, error) { return h.b.Write(p) }
func (h *recHash) Sum(b []byte) []byte         { return append(b, h.b.Bytes()...) }
func (h *recHash) Reset()                      { h.b.Reset() }
func (h *recHash) Size() int                   { return 0 }
func (h *recHash) BlockSize() int              { return 1 }

// c13KeyOpts is the independent data key: every exported field reachable from
// the value, except the ones the statement says the hash ignores.
var c13KeyOpts = &canon.Options{
	NoZone: true,
	SkipFields: map[string]bool{
		"Trip.Vehicle":              true,
		"Trip.IsEntityInMessage":    true,
		"Vehicle.IsEntityInMessage": true,
	},
}

var c13Strs = []string{"", "a", "b", "ab", "ba"}

func c13Str(r *core.Rand) string { return core.Pick(r, c13Strs) }
func c13StrPtr(r *core.Rand) *string {
	if r.Chance(1, 3) {
		return nil
	}
	s := c13Str(r)
	return &s
}
func c13Time(r *core.Rand, zones []*time.Location) *time.Time {
	if r.Chance(1, 3) {
		return nil
	}
	t := time.Unix(int64(r.Intn(3)), 0).In(core.Pick(r, zones))
	return &t
}

func c13Event(r *core.Rand, zones []*time.Location) *gtfs.StopTimeEvent {
	if r.Chance(1, 4) {
		return nil
	}
	e := &gtfs.StopTimeEvent{Time: c13Time(r, zones)}
	if !r.Chance(1, 3) {
		d := time.Duration(r.Intn(3)-1) * time.Second
		e.Delay = &d
	}
	if !r.Chance(1, 3) {
		u := int32(r.Intn(2))
		e.Uncertainty = &u
	}
	return e
}

func c13Trip(r *core.Rand, zones []*time.Location) *gtfs.Trip {
	t := &gtfs.Trip{
		ID: gtfs.TripID{
			ID:                   c13Str(r),
			RouteID:              c13Str(r),
			DirectionID:          gtfs.DirectionID(r.Intn(3)),
			HasStartTime:         r.Bool(),
			HasStartDate:         r.Bool(),
			ScheduleRelationship: gtfsrt.TripDescriptor_ScheduleRelationship(core.Pick(r, []int32{0, 1, 2, 3, 5, 6, 7, 0, 1, 4})),
		},
		IsEntityInMessage: r.Bool(),
	}
	if t.ID.HasStartTime || r.Chance(1, 4) {
		t.ID.StartTime = time.Duration(r.Intn(3)) * time.Second
	}
	if t.ID.HasStartDate || r.Chance(1, 4) {
		t.ID.StartDate = time.Unix(int64(r.Intn(2))*86400, 0).In(core.Pick(r, zones))
	}
	n := r.Intn(4)
	for i := 0; i < n; i++ {
		stu := gtfs.StopTimeUpdate{
			StopID:               c13StrPtr(r),
			NyctTrack:            c13StrPtr(r),
			Arrival:              c13Event(r, zones),
			Departure:            c13Event(r, zones),
			ScheduleRelationship: gtfsrt.TripUpdate_StopTimeUpdate_ScheduleRelationship(core.Pick(r, []int32{0, 1, 2, 3, 0, 1})),
		}
		if !r.Chance(1, 3) {
			s := uint32(r.Intn(2))
			stu.StopSequence = &s
		}
		t.StopTimeUpdates = append(t.StopTimeUpdates, stu)
	}
	if r.Chance(1, 3) {
		t.Vehicle = &gtfs.Vehicle{ID: &gtfs.VehicleID{ID: c13Str(r)}}
	}
	return t
}

func c13Vehicle(r *core.Rand, zones []*time.Location) *gtfs.Vehicle {
	v := &gtfs.Vehicle{IsEntityInMessage: r.Bool(), CongestionLevel: gtfsrt.VehiclePosition_CongestionLevel(r.Intn(3))}
	if !r.Chance(1, 4) {
		v.ID = &gtfs.VehicleID{ID: c13Str(r), Label: c13Str(r), LicensePlate: c13Str(r)}
	}
	if !r.Chance(1, 3) {
		v.Trip = c13Trip(r, zones)
		v.Trip.Vehicle = nil
		if r.Bool() {
			v.Trip.Vehicle = v
		}
	}
	if !r.Chance(1, 3) {
		p := &gtfs.Position{}
		f32 := func() *float32 {
			if r.Chance(1, 3) {
				return nil
			}
			x := float32(r.Intn(3)) / 2
			return &x
		}
		p.Latitude, p.Longitude, p.Bearing, p.Speed = f32(), f32(), f32(), f32()
		if !r.Chance(1, 3) {
			o := float64(r.Intn(3)) / 2
			p.Odometer = &o
		}
		v.Position = p
	}
	if !r.Chance(1, 3) {
		s := uint32(r.Intn(2))
		v.CurrentStopSequence = &s
	}
	v.StopID = c13StrPtr(r)
	if !r.Chance(1, 3) {
		s := gtfsrt.VehiclePosition_VehicleStopStatus(r.Intn(3))
		v.CurrentStatus = &s
	}
	v.Timestamp = c13Time(r, zones)
	if !r.Chance(1, 3) {
		s := gtfsrt.VehiclePosition_OccupancyStatus(r.Intn(3))
		v.OccupancyStatus = &s
	}
	if !r.Chance(1, 3) {
		s := uint32(r.Intn(2))
		v.OccupancyPercentage = &s
	}
	return v
}

// c13Shape abstracts a key to its presence pattern (values dropped).
func c13Shape(kind, key string) string {
	var b strings.Builder
	b.WriteString(kind)
	for _, l := range strings.Split(key, "\n") {
		i := strings.Index(l, " = ")
		if i < 0 {
			continue
		}
		val := l[i+3:]
		cls := "v"
		switch {
		case val == "nil":
			cls = "n"
		case val == "[]":
			cls = "e"
		case val == `""` || val == "0" || val == "false":
			cls = "z"
		case strings.HasPrefix(val, "len "):
			cls = val
		}
		b.WriteString(genericPath(l[:i]))
		b.WriteString(cls)
		b.WriteByte(';')
	}
	return b.String()
}

type c13pop struct {
	c           *core.Ctx
	kind        string
	streamToKey map[string]string
	keyToStream map[string]string
	origin      map[string]string // key -> how the value was produced
}

func (p *c13pop) add(stream, key, how string) {
	c := p.c
	c.Cmp(2)
	if k0, ok := p.streamToKey[stream]; ok && k0 != key {
		diff := core.FirstDiff(k0, key)
		path := diff
		if i := strings.Index(diff, ": "); i >= 0 {
			path = diff[i+2:]
		}
		if i := strings.Index(path, " = "); i >= 0 {
			path = path[:i]
		}
		c.Violationf("C13|collision|"+p.kind+"|"+genericPath(path), map[string]any{
			"value_a": k0, "value_b": key, "produced_a": p.origin[k0], "produced_b": how, "hash_input_hex": fmt.Sprintf("%x", stream),
		}, "two %ss that differ in a data field (%s) produce the same hash input", p.kind, core.Trunc(diff, 200))
	} else if !ok {
		p.streamToKey[stream] = key
	}
	if s0, ok := p.keyToStream[key]; ok && s0 != stream {
		c.Violationf("C13|equal-data-different-hash|"+p.kind+"|"+how, map[string]any{
			"value": key, "produced_a": p.origin[key], "produced_b": how, "hash_input_a_hex": fmt.Sprintf("%x", s0), "hash_input_b_hex": fmt.Sprintf("%x", stream),
		}, "two %ss equal in every data field produce different hash input (second one produced by: %s)", p.kind, how)
	} else if !ok {
		p.keyToStream[key] = stream
		p.origin[key] = how
	}
}

func init() {
	core.Register(&core.Property{
		ID:    "C13",
		Level: "exploration",
		Rule: "each case draws base trips and vehicles from tiny value domains (strings from {\"\",a,b,ab,ba}, numbers 0/1, 0-3 stop time updates) and adds every single-point mutant of each base (reflection over all exported leaves: value change, nil<->zero, slice grow/shrink/swap, +1s, zone change), string-boundary shifts, deep copies, and flag/back-reference changes; " +
			"every value is hashed into a recording hash.Hash and rendered into an independent data key; distinct_nontrivial counts distinct presence patterns (which optionals are nil/zero/set, how many updates) of the base values",
		Cases: func(tier string) int {
			if tier == "thorough" {
				return 3000
			}
			return 240
		},
		Run: runC13,
		Assumptions: []string{
			"the data key (reflection over every exported field except Trip.Vehicle and the IsEntityInMessage flags, instants by Unix second) is injective; sub-second instants are not generated because the parser never produces them",
		},
	})
}

func runC13(c *core.Ctx) {
	r := c.R
	ny, err := time.LoadLocation("America/New_York")
	if err != nil {
		ny = time.FixedZone("X", -5*3600)
	}
	zones := []*time.Location{time.UTC, ny, time.FixedZone("+0545", 5*3600+45*60)}
	nBase := 40
	if c.Thorough() {
		nBase = 80
	}
	mutSep = mutSeps[c.Index%len(mutSeps)]
	c.Feature(fmt.Sprintf("separator-mutations:%q", mutSep))
	tp := &c13pop{c: c, kind: "trip", streamToKey: map[string]string{}, keyToStream: map[string]string{}, origin: map[string]string{}}
	vp := &c13pop{c: c, kind: "vehicle", streamToKey: map[string]string{}, keyToStream: map[string]string{}, origin: map[string]string{}}

	hashTrip := func(t *gtfs.Trip, how string) {
		var h recHash
		t.Hash(&h)
		s1 := h.b.String()
		var h2 recHash
		t.Hash(&h2)
		c.Eval(2)
		if s1 != h2.b.String() {
			c.Violation("C13|nondeterministic|trip", "hashing the same trip twice gives different hash input", map[string]any{"value": canon.Dump(t, c13KeyOpts)})
		}
		tp.add(s1, canon.Dump(t, c13KeyOpts), how)
	}
	hashVehicle := func(v *gtfs.Vehicle, how string) {
		var h recHash
		v.Hash(&h)
		s1 := h.b.String()
		var h2 recHash
		v.Hash(&h2)
		c.Eval(2)
		if s1 != h2.b.String() {
			c.Violation("C13|nondeterministic|vehicle", "hashing the same vehicle twice gives different hash input", map[string]any{"value": canon.Dump(v, c13KeyOpts)})
		}
		vp.add(s1, canon.Dump(v, c13KeyOpts), how)
	}
	skipTrip := func(path string) bool { return strings.HasPrefix(path, ".Vehicle->.") }      // only nil<->set of the back-reference
	skipVeh := func(path string) bool { return strings.HasPrefix(path, ".Trip->.Vehicle->") } // do not descend into the cycle

	for i := 0; i < nBase; i++ {
		t := c13Trip(r, zones)
		if i%16 == 15 {
			// size thresholds: long adjacent strings with the boundary shifted, many stop time updates
			n := core.Pick(r, []int{255, 256, 257, 1023, 1024, 1025, 1100, 4097})
			long := strings.Repeat("x", n)
			t.ID.ID, t.ID.RouteID = long+"ab", long+"cd"
			m := DeepCopy(t)
			m.ID.ID, m.ID.RouteID = long+"abx", long[1:]+"cd"
			hashTrip(m, "long-string-boundary-shift@ID|RouteID")
			m2 := DeepCopy(t)
			m2.ID.ID, m2.ID.RouteID = long+"a", "b"+long+"cd"
			hashTrip(m2, "long-string-boundary-shift@ID|RouteID")
			if len(t.StopTimeUpdates) > 0 {
				for len(t.StopTimeUpdates) < n%300+130 {
					t.StopTimeUpdates = append(t.StopTimeUpdates, t.StopTimeUpdates[r.Intn(len(t.StopTimeUpdates))])
				}
				// targeted changes deep inside the long list (no full mutant closure for long values)
				for _, k := range []int{0, 63, 64, 127, 128, len(t.StopTimeUpdates) - 1} {
					if k < len(t.StopTimeUpdates) {
						m3 := DeepCopy(t)
						s := "changed"
						m3.StopTimeUpdates[k].StopID = &s
						hashTrip(m3, "stop-id-changed-deep-in-long-list")
						m4 := DeepCopy(t)
						m4.StopTimeUpdates = append(m4.StopTimeUpdates[:k:k], m4.StopTimeUpdates[k+1:]...)
						hashTrip(m4, "update-removed-deep-in-long-list")
					}
				}
			}
			c.Feature("long-strings-and-many-updates")
			hashTrip(t, "base-long")
			c.Shape(fmt.Sprintf("long strings=%d updates=%d", n, len(t.StopTimeUpdates)))
			continue
		}
		key := canon.Dump(t, c13KeyOpts)
		c.Shape(c13Shape("T", key))
		if i == 0 && c.WantSample() {
			var h recHash
			t.Hash(&h)
			c.Sample(map[string]any{"kind": "trip", "data_key": key, "hash_input_hex": fmt.Sprintf("%x", h.b.Bytes())})
		}
		hashTrip(t, "base")
		hashTrip(DeepCopy(t), "deep-copy")
		// object identity inside one value: the same data with the departure event aliasing the arrival event (one pointer,
		// or two structs sharing their field pointers), with two updates sharing one event, with strings sharing storage
		for k := range t.StopTimeUpdates {
			if arr := t.StopTimeUpdates[k].Arrival; arr != nil {
				al := DeepCopy(t)
				al.StopTimeUpdates[k].Departure = al.StopTimeUpdates[k].Arrival
				hashTrip(al, "alias:departure-is-the-arrival-pointer")
				sep := DeepCopy(t)
				cp := *sep.StopTimeUpdates[k].Arrival
				if cp.Time != nil {
					x := *cp.Time
					cp.Time = &x
				}
				if cp.Delay != nil {
					x := *cp.Delay
					cp.Delay = &x
				}
				if cp.Uncertainty != nil {
					x := *cp.Uncertainty
					cp.Uncertainty = &x
				}
				sep.StopTimeUpdates[k].Departure = &cp
				hashTrip(sep, "alias:departure-is-a-separate-equal-event")
				sh := DeepCopy(t)
				shallow := *sh.StopTimeUpdates[k].Arrival
				sh.StopTimeUpdates[k].Departure = &shallow
				hashTrip(sh, "alias:departure-shares-the-arrival's-field-pointers")
				c.Feature("aliasing-variants")
				break
			}
		}
		ms, infos := mutateAll(t, zones[(i+1)%len(zones)], skipTrip)
		for j, m := range ms {
			hashTrip(m, infos[j].Kind+"@"+infos[j].Path)
			c.Feature("trip-mutant:" + infos[j].Kind)
		}
		// boundary shifts between adjacent strings
		if len(t.ID.ID) > 0 {
			m := DeepCopy(t)
			m.ID.RouteID = m.ID.ID[len(m.ID.ID)-1:] + m.ID.RouteID
			m.ID.ID = m.ID.ID[:len(m.ID.ID)-1]
			hashTrip(m, "boundary-shift@ID|RouteID")
		}
		for k := range t.StopTimeUpdates {
			u := &t.StopTimeUpdates[k]
			if u.StopID != nil && u.NyctTrack != nil && len(*u.StopID) > 0 {
				m := DeepCopy(t)
				s, tr := *m.StopTimeUpdates[k].StopID, *m.StopTimeUpdates[k].NyctTrack
				tr = s[len(s)-1:] + tr
				s = s[:len(s)-1]
				m.StopTimeUpdates[k].StopID, m.StopTimeUpdates[k].NyctTrack = &s, &tr
				hashTrip(m, "boundary-shift@StopID|NyctTrack")
			}
		}
		// moving an update across the list boundary: last update dropped and its stop id glued to the previous
		// is covered by drop-last / append-zero mutants.

		// real hash: equal keys give equal digests
		a, b := sha256.New(), sha256.New()
		t.Hash(a)
		DeepCopy(t).Hash(b)
		c.Eval(2)
		c.Cmp(1)
		if !bytes.Equal(a.Sum(nil), b.Sum(nil)) {
			c.Violation("C13|sha256-differs-for-copy|trip", "sha256 over a trip and over its deep copy differ", map[string]any{"value": key})
		}
	}
	for i := 0; i < nBase; i++ {
		v := c13Vehicle(r, zones)
		key := canon.Dump(v, c13KeyOpts)
		c.Shape(c13Shape("V", key))
		if i == 0 && c.WantSample() {
			var h recHash
			v.Hash(&h)
			c.Sample(map[string]any{"kind": "vehicle", "data_key": key, "hash_input_hex": fmt.Sprintf("%x", h.b.Bytes())})
		}
		hashVehicle(v, "base")
		hashVehicle(DeepCopy(v), "deep-copy")
		ms, infos := mutateAll(v, zones[(i+1)%len(zones)], skipVeh)
		for j, m := range ms {
			hashVehicle(m, infos[j].Kind+"@"+infos[j].Path)
			c.Feature("vehicle-mutant:" + infos[j].Kind)
		}
		if v.ID != nil && i%16 == 15 {
			n := core.Pick(r, []int{255, 256, 257, 1023, 1024, 1025, 1100, 4097})
			long := strings.Repeat("y", n)
			a := DeepCopy(v)
			a.ID.ID, a.ID.Label, a.ID.LicensePlate = long+"ab", long+"cd", long
			b := DeepCopy(a)
			b.ID.ID, b.ID.Label = long+"a", "b"+long+"cd"
			d := DeepCopy(a)
			d.ID.Label, d.ID.LicensePlate = long+"cd"+long[:1], long[1:]
			hashVehicle(a, "long-strings")
			hashVehicle(b, "long-string-boundary-shift@ID|Label")
			hashVehicle(d, "long-string-boundary-shift@Label|LicensePlate")
		}
		if v.ID != nil && len(v.ID.ID) > 0 {
			m := DeepCopy(v)
			m.ID.Label = m.ID.ID[len(m.ID.ID)-1:] + m.ID.Label
			m.ID.ID = m.ID.ID[:len(m.ID.ID)-1]
			hashVehicle(m, "boundary-shift@ID|Label")
		}
		if v.ID != nil && len(v.ID.Label) > 0 {
			m := DeepCopy(v)
			m.ID.LicensePlate = m.ID.Label[len(m.ID.Label)-1:] + m.ID.LicensePlate
			m.ID.Label = m.ID.Label[:len(m.ID.Label)-1]
			hashVehicle(m, "boundary-shift@Label|LicensePlate")
		}
	}
	c.Observe("distinct_trip_hash_inputs", len(tp.streamToKey))
	c.Observe("distinct_trip_data_keys", len(tp.keyToStream))
	c.Observe("distinct_vehicle_hash_inputs", len(vp.streamToKey))
	c.Observe("distinct_vehicle_data_keys", len(vp.keyToStream))
}
