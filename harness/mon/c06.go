package mon

import (
	"crypto/sha256"

	"fmt"
	"google.golang.org/protobuf/proto"
	"strings"
	"time"

	"github.com/jamespfennell/gtfs"
	"github.com/jamespfennell/gtfs/extensions"
	"github.com/jamespfennell/gtfs/extensions/nyctalerts"
	"github.com/jamespfennell/gtfs/extensions/nycttrips"
	gtfsrt "github.com/jamespfennell/gtfs/proto"

	"verifharness/canon"
	"verifharness/core"
	"verifharness/rgen"
	"verifharness/sgen"
)

type extConfig struct {
	name string
	mk   func() extensions.Extension // nil result means "leave ParseRealtimeOptions.Extension nil"
}

// allExtConfigs: nil, NoExtension, 4 x nycttrips, 24 x nyctalerts.
func allExtConfigs() []extConfig {
	out := []extConfig{
		{"nil", func() extensions.Extension { return nil }},
		{"NoExtension", func() extensions.Extension { return extensions.NoExtension() }},
	}
	for _, o := range c16OptCombos {
		o := o
		out = append(out, extConfig{fmt.Sprintf("nycttrips{filter=%v,preserveM=%v}", o.FilterStaleUnassignedTrips, o.PreserveMTrainPlatformsInBushwick), func() extensions.Extension { return nycttrips.Extension(o) }})
	}
	for _, o := range c17Configs() {
		o := o
		out = append(out, extConfig{fmt.Sprintf("nyctalerts{%s,station=%v,skip=%v,meta=%v}", o.ElevatorAlertsDeduplicationPolicy, o.ElevatorAlertsInformUsingStationIDs, o.SkipTimetabledNoServiceAlerts, o.AddNyctMetadata), func() extensions.Extension { return nyctalerts.Extension(o) }})
	}
	return out
}

// c06Feed builds a message in which every map-built output has at least five
// independently ordered elements.
func c06Feed(r *core.Rand, tag int) *gtfsrt.FeedMessage {
	f := rgen.GenFeed(r, rgen.Opts{MaxTrips: 6, MaxVehs: 2, MaxAlerts: 2, MaxIDLess: 2, PassThroughSelectorsOnly: true})
	m := f.Msg
	m.Header.Timestamp = rgen.U64(c16FeedTs)
	nV := 5 + r.Intn(4)
	for k := 0; k < nV; k++ {
		vp := &gtfsrt.VehiclePosition{Vehicle: &gtfsrt.VehicleDescriptor{Id: rgen.S(fmt.Sprintf("det-%d-%d-%s", tag, k, core.Pick(r, []string{"a", "Z", "é", "0"})))}}
		rgen.FillVehiclePosition(r, vp, 5000+k)
		m.Entity = append(m.Entity, &gtfsrt.FeedEntity{Vehicle: vp})
	}
	// one alert with >= 5 routes named only by non-identifying descriptors
	a := &gtfsrt.Alert{}
	nR := 5 + r.Intn(4)
	for k := 0; k < nR; k++ {
		d := &gtfsrt.TripDescriptor{RouteId: rgen.S(fmt.Sprintf("FB%d%s", k, core.Pick(r, []string{"", "x", "Y"})))}
		if r.Bool() {
			d.DirectionId = rgen.U32(uint32(r.Intn(2)))
		}
		a.InformedEntity = append(a.InformedEntity, &gtfsrt.EntitySelector{Trip: d})
	}
	// the same route named again by a later selector: without direction first, with one later (and the other way round)
	for k := 0; k < 3; k++ {
		src := a.InformedEntity[r.Intn(nR)].Trip
		d := &gtfsrt.TripDescriptor{RouteId: rgen.S(src.GetRouteId())}
		if src.DirectionId == nil || r.Bool() {
			d.DirectionId = rgen.U32(uint32(r.Intn(2)))
		}
		a.InformedEntity = append(a.InformedEntity, &gtfsrt.EntitySelector{Trip: d})
	}
	m.Entity = append(m.Entity, &gtfsrt.FeedEntity{Alert: a})
	// elevator alerts: >= 5 groups under every policy
	for k := 0; k < 6+r.Intn(3); k++ {
		st := c17Stations[k%len(c17Stations)]
		for _, pl := range []string{"N", "S"} {
			if r.Chance(3, 4) {
				ea := &gtfsrt.Alert{InformedEntity: []*gtfsrt.EntitySelector{{StopId: rgen.S(st + pl)}}}
				m.Entity = append(m.Entity, &gtfsrt.FeedEntity{Id: rgen.S(fmt.Sprintf("%s%s#EL%d", st, pl, 100+k)), Alert: ea})
			}
		}
	}
	// a few NYCT trips (some stale, some assigned)
	for k := 0; k < 3; k++ {
		cell := c16Cell{assigned: core.Pick(r, c16Assigned), dir: core.Pick(r, c16Dirs), tracks: core.Pick(r, c16Tracks), first: core.Pick(r, c16First)}
		id := fmt.Sprintf("%06d_M..%s%02d", r.Intn(600000), core.Pick(r, []string{"N", "S"}), k)
		d := &gtfsrt.TripDescriptor{TripId: rgen.S(id), RouteId: rgen.S("M"), StartDate: rgen.S("20231114")}
		c16SetNyct(d, cell.assigned, cell.dir, fmt.Sprintf("TRAIN-%d-%d", tag, k))
		stops := c16Stops(cell.first, cell.tracks, r)
		for _, u := range stops {
			if r.Bool() {
				u.StopId = rgen.S(core.Pick(r, c16MStops))
			}
		}
		m.Entity = append(m.Entity, &gtfsrt.FeedEntity{TripUpdate: &gtfsrt.TripUpdate{Trip: d, StopTimeUpdate: stops}})
	}
	// Mercury data on the non-elevator alerts
	addUnrelatedNyctData(r, m)
	r.Shuffle(len(m.Entity), func(i, j int) { m.Entity[i], m.Entity[j] = m.Entity[j], m.Entity[i] })
	for i, e := range m.Entity {
		if e.Id == nil || !strings.Contains(*e.Id, "#EL") {
			e.Id = rgen.S(fmt.Sprintf("e%d-%d", tag, i))
		}
	}
	return m
}

// c06FeedLarge builds a message of n entities (size-threshold sweep) whose entity kinds are drawn per
// position: stale unassigned NYCT trips and duplicate elevator alerts (entities an extension skips),
// id-bearing vehicle positions, assigned NYCT trips. Two such feeds have different kinds at the same index.
func c06FeedLarge(r *core.Rand, tag, n int) *gtfsrt.FeedMessage {
	m := &gtfsrt.FeedMessage{Header: &gtfsrt.FeedHeader{GtfsRealtimeVersion: rgen.S("1.0"), Timestamp: rgen.U64(c16FeedTs)}}
	for i := 0; i < n; i++ {
		e := &gtfsrt.FeedEntity{Id: rgen.S(fmt.Sprintf("big%d-%d", tag, i))}
		switch k := r.Intn(20); {
		case k < 7: // stale unassigned NYCT trip
			d := &gtfsrt.TripDescriptor{TripId: rgen.S(fmt.Sprintf("%06d_A..N%d", (i*37)%600000, i)), RouteId: rgen.S("A"), StartDate: rgen.S("20231114")}
			c16SetNyct(d, "false", "NORTH", "")
			e.TripUpdate = &gtfsrt.TripUpdate{Trip: d, StopTimeUpdate: c16Stops("dep<", "none", r)}
		case k < 14: // vehicle position with an id
			vp := &gtfsrt.VehiclePosition{Vehicle: &gtfsrt.VehicleDescriptor{Id: rgen.S(fmt.Sprintf("bigv-%d-%d", tag, i))}}
			rgen.FillVehiclePosition(r, vp, 9000+i)
			e.Vehicle = vp
		case k < 17: // assigned NYCT trip
			d := &gtfsrt.TripDescriptor{TripId: rgen.S(fmt.Sprintf("%06d_6..S%d", (i*41)%600000, i)), RouteId: rgen.S("6"), StartDate: rgen.S("20231114")}
			c16SetNyct(d, "true", "SOUTH", fmt.Sprintf("BIGTRAIN-%d-%d", tag, i))
			e.TripUpdate = &gtfsrt.TripUpdate{Trip: d, StopTimeUpdate: c16Stops("dep>", "actual", r)}
		case k < 19: // elevator alerts, few groups, many duplicates
			st := c17Stations[i%3]
			e.Id = rgen.S(fmt.Sprintf("%s%s#EL%d", st, core.Pick(r, []string{"N", "S"}), 200+i%4))
			e.Alert = &gtfsrt.Alert{InformedEntity: []*gtfsrt.EntitySelector{{StopId: rgen.S(st)}}}
		default: // timetabled no-service alert
			sel := &gtfsrt.EntitySelector{RouteId: rgen.S("C")}
			proto.SetExtension(sel, gtfsrt.E_MercuryEntitySelector, &gtfsrt.MercuryEntitySelector{SortOrder: rgen.S("MTASBWY:C:3")})
			e.Alert = &gtfsrt.Alert{InformedEntity: []*gtfsrt.EntitySelector{sel}}
		}
		m.Entity = append(m.Entity, e)
	}
	return m
}

var c06LargeSizes = []int{255, 256, 257, 300, 1023, 1024, 1025, 1100}

func c06Counts(tier string) (static, realtime int) {
	if tier == "thorough" {
		return 500, 640
	}
	return 120, 220
}

// dd is a pair of dumps of one result: in result order, and order-normalised.
type dd struct{ ord, norm string }

func (d dd) hash() string { return shortHash(d.ord) + "/" + shortHash(d.norm) }

func collectionRoot(path string) string {
	if i := strings.LastIndex(path, "[]"); i >= 0 {
		return path[:i]
	}
	return path
}

// c06Compare reports a difference between two parses of the same bytes. A
// difference that disappears under order normalisation is an ordering defect
// and gets one signature per collection, whatever comparison found it.
func c06Compare(c *core.Ctx, category string, base, got dd, detail map[string]any, what string) bool {
	c.Cmp(1)
	if base.ord == got.ord {
		return false
	}
	if base.norm == got.norm {
		path, desc, _ := diffPath(base.ord, got.ord)
		detail["diff"] = desc
		detail["found_by"] = category
		c.Violationf("C06|order-varies|"+collectionRoot(path), detail, "the same bytes parse to the same content in a different order (%s): %s", what, desc)
		return true
	}
	path, desc, _ := diffPath(base.norm, got.norm)
	detail["diff"] = desc
	c.Violationf("C06|"+category+"|"+path, detail, "%s: %s", what, desc)
	return true
}

func shortHash(s string) string {
	h := sha256.Sum256([]byte(s))
	return fmt.Sprintf("%x", h[:6])
}

func init() {
	core.Register(&core.Property{
		ID:    "C06",
		Level: "exploration",
		Rule: "static cases: a feed with >= 5 services, shapes and trips is parsed 8 (16 thorough) times from write-protected pages, plus an A,B,A history; realtime cases: three feeds A,B,C whose map-built outputs all have >= 5 elements (id-bearing vehicles, routes derived from non-identifying alert descriptors, elevator groups, NYCT trips) are parsed under each of the 30 extension configurations (nil, NoExtension, 4 nycttrips, 24 nyctalerts): repeated with fresh options, in a history A,B,A,C,A,B,C,A with ONE reused options/extension object, and under equivalent options (nil extension vs NoExtension; nil zone vs time.UTC vs loaded UTC); every ordered canonical dump must equal the fresh-options baseline of the same bytes; the whole case list runs in 2 (3 thorough) separate processes whose per-case digests must agree (thorough: one of them built with go1.26.8, which has a different map implementation); input bytes are hashed before/after and live in PROT_READ pages; " +
			"distinct_nontrivial counts distinct (input kind, configuration, sizes of the map-built collections) signatures",
		Cases: func(tier string) int { a, b := c06Counts(tier); return a + b },
		Run:   runC06,
		Replicas: func(tier string) int {
			if tier == "thorough" {
				return 3
			}
			return 2
		},
		ReplicaOrders:     true,
		AltBinLastReplica: "vmon-go126",
		Post:              c06Post,
		Assumptions: []string{
			"with k >= 5 independently ordered elements and >= 8 repeats, an order that is random per parse repeats every time with probability < (1/120)^7",
			"a write to the input is observed as a fault on the PROT_READ pages (transient write-and-restore included) and by a before/after hash",
		},
	})
}

func c06Post(p *core.ParentCtx) {
	if len(p.Replica) < 2 {
		return
	}
	base := p.Replica[0].Digests
	compared := int64(0)
	for r := 1; r < len(p.Replica); r++ {
		for k, v := range base {
			w, ok := p.Replica[r].Digests[k]
			if !ok {
				continue
			}
			compared++
			if v != w {
				// find the first differing configuration, and whether only the order differs
				av, bv := strings.Split(v, ";"), strings.Split(w, ";")
				which, orderOnly := "?", true
				for i := range av {
					if i < len(bv) && av[i] != bv[i] {
						if which == "?" {
							which = strings.SplitN(av[i], "=", 2)[0]
						}
						an, bn := av[i][strings.LastIndex(av[i], "/")+1:], bv[i][strings.LastIndex(bv[i], "/")+1:]
						if an != bn {
							orderOnly = false
						}
					}
				}
				kind := strings.SplitN(k, ":", 2)[0]
				if orderOnly {
					p.Violation("C06|order-varies-across-processes|"+kind, fmt.Sprintf("%s parses to the same content in a different order in two processes (first differing configuration: %s)", k, which),
						map[string]any{"case": k, "process_0": v, fmt.Sprintf("process_%d", r): w})
				} else {
					p.Violation("C06|differs-across-processes|"+kind+"|"+strings.SplitN(which, "{", 2)[0], fmt.Sprintf("%s parses to different content in two processes (first differing configuration: %s)", k, which),
						map[string]any{"case": k, "process_0": v, fmt.Sprintf("process_%d", r): w})
				}
			}
		}
	}
	p.Observe("cross_process_digest_comparisons", compared)
}

func runC06(c *core.Ctx) {
	nStatic, _ := c06Counts(c.Tier)
	if c.Index < nStatic {
		c06Static(c)
	} else if (c.Index-nStatic)%150 == 7 {
		c06ClockProbe(c)
	} else {
		c06Realtime(c)
	}
}

// c06ClockProbe: the wall clock is neither bytes nor options. A message without header timestamp whose NYCT trips have first
// stop times a few seconds around "now" is parsed four times, 1.3 s apart, under the configurations that compare times:
// every parse must give the same result. (The pauses are an injected delay that lets the clock pass the trips' times; the
// verdict is the equality of the four results, not a duration.)
func c06ClockProbe(c *core.Ctx) {
	now := time.Now().Unix()
	m := &gtfsrt.FeedMessage{Header: &gtfsrt.FeedHeader{GtfsRealtimeVersion: rgen.S("1.0")}}
	if c.Index%2 == 0 {
		m.Header.Timestamp = rgen.U64(0) // explicitly zero
	}
	for k, dt := range []int64{-3, 1, 2, 3, 4, 3600, -86400} {
		d := &gtfsrt.TripDescriptor{TripId: rgen.S(fmt.Sprintf("%06d_A..N%02d", 30000+k*100, k)), RouteId: rgen.S("A"), StartDate: rgen.S("20231114")}
		c16SetNyct(d, core.Pick(c.R, []string{"false", "absent", "false"}), "NORTH", "")
		u := &gtfsrt.TripUpdate_StopTimeUpdate{StopId: rgen.S("A01N")}
		if k%2 == 0 {
			u.Departure = &gtfsrt.TripUpdate_StopTimeEvent{Time: rgen.I64(now + dt)}
		} else {
			u.Arrival = &gtfsrt.TripUpdate_StopTimeEvent{Time: rgen.I64(now + dt)}
		}
		m.Entity = append(m.Entity, &gtfsrt.FeedEntity{Id: rgen.S(fmt.Sprintf("clk%d", k)), TripUpdate: &gtfsrt.TripUpdate{Trip: d, StopTimeUpdate: []*gtfsrt.TripUpdate_StopTimeUpdate{u}}})
	}
	// an alert whose active period straddles now, and a vehicle position reported "now"
	m.Entity = append(m.Entity, &gtfsrt.FeedEntity{Id: rgen.S("clk-alert"), Alert: &gtfsrt.Alert{ActivePeriod: []*gtfsrt.TimeRange{{Start: rgen.U64(uint64(now - 2)), End: rgen.U64(uint64(now + 2))}}, InformedEntity: []*gtfsrt.EntitySelector{{RouteId: rgen.S("A")}}}})
	m.Entity = append(m.Entity, &gtfsrt.FeedEntity{Id: rgen.S("clk-veh"), Vehicle: &gtfsrt.VehiclePosition{Vehicle: &gtfsrt.VehicleDescriptor{Id: rgen.S("v1")}, Timestamp: rgen.U64(uint64(now + 2))}})
	b := rgen.Marshal(m)
	configs := allExtConfigs()
	var first []string
	for round := 0; round < 4; round++ {
		if round > 0 {
			time.Sleep(1300 * time.Millisecond)
		}
		for ci, cfg := range configs {
			if ci >= 8 && ci%5 != 0 {
				continue
			}
			rt, err := gtfs.ParseRealtime(b, &gtfs.ParseRealtimeOptions{Extension: cfg.mk()})
			c.Eval(1)
			d := rtDump(rt, err).ord
			if round == 0 {
				first = append(first, d)
				continue
			}
			k := len(first)
			_ = k
			idx := 0
			for cj := 0; cj <= ci; cj++ {
				if !(cj >= 8 && cj%5 != 0) {
					idx++
				}
			}
			c.Cmp(1)
			if path, desc, differ := diffPath(first[idx-1], d); differ {
				c.Violationf("C06|result-depends-on-the-clock|"+strings.SplitN(cfg.name, "{", 2)[0]+"|"+path, map[string]any{"configuration": cfg.name, "message": prototextOf(m), "seconds_after_first_parse": float64(round) * 1.3},
					"the same bytes parsed with the same options %.1f s later give a different result (%s): %s", float64(round)*1.3, cfg.name, desc)
			}
		}
	}
	c.Feature("clock-probe")
	c.Shape("clock-probe")
}

func c06Static(c *core.Ctx) {
	r := c.R
	repeats := 8
	if c.Thorough() {
		repeats = 16
	}
	sz := sgen.Size{Agencies: 2, Routes: 4, Stops: 12, Transfers: 4, Calendars: 9, CalDates: 9, Shapes: 9, ShapePtsPer: 3, Trips: 9, Freqs: 3, StopTimesPer: 4}
	var ms [2]*sgen.Model
	var bufs [2]*core.ROBuf
	for i := range ms {
		for {
			ms[i] = sgen.Gen(r, sz)
			if len(ms[i].Calendar)+len(ms[i].CalDates) >= 5 {
				break
			}
		}
		// the two archives of a case, and all cases of a run, draw their service dates from one small pool while
		// their agencies sit in different zones: a cache keyed too coarsely returns the other feed's instants
		pool := []sgen.Date{{Y: 2024, M: 3, D: 9}, {Y: 2024, M: 3, D: 10}, {Y: 2024, M: 3, D: 11}, {Y: 2024, M: 11, D: 3}, {Y: 2023, M: 7, D: 1}}
		for k := range ms[i].CalDates {
			ms[i].CalDates[k].Date = core.Pick(r, pool)
		}
		for k := range ms[i].Calendar {
			ms[i].Calendar[k].Start, ms[i].Calendar[k].End = pool[4], pool[3]
		}
		ms[i].Agencies[0].TZ = sgen.Zones[(c.Index*2+i)%len(sgen.Zones)]
		if i == 1 && c.Index%3 == 0 {
			// B names A's zone in another letter case (zone names are case-sensitive: it is a different, usually unknown name)
			z := ms[0].Agencies[0].TZ
			ms[1].Agencies[0].TZ = core.Pick(r, []string{strings.ToLower(z), strings.ToUpper(z), strings.Title(strings.ToLower(z))})
			c.Feature("static-zone-names-differing-in-case")
		}
		// nested stations with unspecified wheelchair values: station <- station <- platform chains, so that with the
		// inheritance option a value has to travel two levels (an order-dependent pass shows up as nondeterminism)
		if perm := r.Perm(len(ms[i].Stops)); r.Chance(2, 3) {
			for k := 0; k+2 < len(perm) && k < 9; k += 3 {
				root, mid, leaf := perm[k], perm[k+1], perm[k+2]
				ms[i].Stops[root].Parent, ms[i].Stops[root].LocType, ms[i].Stops[root].Wheelchair = -1, 1, 1+r.Intn(2)
				ms[i].Stops[mid].Parent, ms[i].Stops[mid].LocType, ms[i].Stops[mid].Wheelchair = root, 1, 0
				ms[i].Stops[leaf].Parent, ms[i].Stops[leaf].LocType, ms[i].Stops[leaf].Wheelchair = mid, r.Intn(3), 0
			}
			c.Feature("static-nested-stations-unspecified-wheelchair")
		}
		a := sgen.Tables(ms[i])
		if r.Chance(1, 3) {
			sgen.Corrupt(a, r, 1+r.Intn(3)) // determinism also holds for feeds with rejected rows
			c.Feature("static-with-corruptions")
		}
		if r.Chance(1, 2) {
			// repeated rows (the same id / the same exception twice): whatever the parser makes of them, it makes the same every time
			for _, t := range a.Tables {
				if len(t.Rows) > 0 && r.Chance(1, 3) {
					for k := 0; k < 1+r.Intn(2); k++ {
						row := append([]string(nil), t.Rows[r.Intn(len(t.Rows))]...)
						t.InsertRow(r.Intn(len(t.Rows)+1), row)
					}
				}
			}
			c.Feature("static-with-repeated-rows")
		}
		rb, err := core.NewROBuf(sgen.Encode(a, &sgen.Presentation{Plain: r.Bool(), R: r.Fork()}))
		if err != nil {
			c.Note("harness_error", err.Error())
			c.Observe("harness_errors", 1)
			return
		}
		bufs[i] = rb
		defer rb.Free()
	}
	var baseDump [2]dd
	var nSvc int
	sdump := func(s *gtfs.Static, err error) dd {
		if err != nil {
			return dd{"error: " + err.Error(), "error: " + err.Error()}
		}
		return dd{canon.DumpStatic(s, true, true), canon.DumpStatic(s, false, true)}
	}
	for _, inherit := range []bool{false, true} {
		opts := gtfs.ParseStaticOptions{InheritWheelchairBoarding: inherit}
		firstOrder := []int{0, 1}
		if c.Index%6 == 3 {
			firstOrder = []int{1, 0} // B is the first of the two this process ever parses (what a process-wide cache sees first matters)
		}
		for _, i := range firstOrder {
			before := sha256.Sum256(bufs[i].B)
			s, err, pan := safeParseStatic(bufs[i].B, opts)
			c.Eval(1)
			if strings.HasPrefix(pan, roFaultMark) {
				c.Violation("C06|input-modified|static", "ParseStatic wrote to its (read-only mapped) input bytes", map[string]any{"panic_and_stack": pan})
				return
			}
			if pan != "" {
				c.Skip("ParseStatic-panicked(C05)")
				return
			}
			baseDump[i] = sdump(s, err)
			if err == nil {
				nSvc = len(s.Services)
			}
			if sha256.Sum256(bufs[i].B) != before {
				c.Violation("C06|input-modified|static", "ParseStatic modified its input bytes", nil)
			}
		}
		c.Shape(fmt.Sprintf("static services=%d inherit=%v", nSvc, inherit))
		// repeats of A, then the history A,B,A
		seq := []int{}
		for k := 0; k < repeats; k++ {
			seq = append(seq, 0)
		}
		seq = append(seq, 1, 0, 1, 0)
		for k, i := range seq {
			s, err, pan := safeParseStatic(bufs[i].B, opts)
			c.Eval(1)
			if pan != "" {
				c.Violation("C06|nondeterministic-panic|static", "ParseStatic panicked on a repeat but not on the first parse: "+pan, nil)
				continue
			}
			if c06Compare(c, "nondeterministic|static", baseDump[i], sdump(s, err), map[string]any{"repeat": k, "tables": sampleTables(sgen.Tables(ms[i]), 12)},
				fmt.Sprintf("static feed parsed again (repeat %d)", k)) {
				break
			}
		}
		if !inherit {
			c.Digest(fmt.Sprintf("static:%d", c.Index), "A="+baseDump[0].hash()+";B="+baseDump[1].hash())
		}
	}
	if c.WantSample() {
		c.Sample(map[string]any{"kind": "static", "services": nSvc, "model_shape": ms[0].ShapeSig(), "repeats": repeats})
	}
}

func rtDump(rt *gtfs.Realtime, err error) dd {
	if err != nil {
		return dd{"error: " + err.Error(), "error: " + err.Error()}
	}
	return dd{canon.DumpRealtime(rt, true), canon.DumpRealtime(rt, false)}
}

func c06Realtime(c *core.Ctx) {
	r := c.R
	repeats := 8
	if c.Thorough() {
		repeats = 16
	}
	var bufs [3]*core.ROBuf
	var msgs [3]*gtfsrt.FeedMessage
	large := c.Index%8 == 0
	for i := range bufs {
		msgs[i] = c06Feed(r, c.Index*3+i)
		if large {
			msgs[i] = c06FeedLarge(r, c.Index*3+i, c06LargeSizes[(c.Index/8+i)%len(c06LargeSizes)])
		}
		if i > 0 && !large && c.Index%2 == 0 {
			// B and C are siblings of A: the same entity ids and, field by field, mostly the same identifiers and timestamps,
			// with partly different content - what a cache that survives a call and is keyed by too few fields gets wrong
			msgs[i] = rgen.Sibling(r, msgs[0], 1, 3+4*(i-1)).(*gtfsrt.FeedMessage)
			c.Feature("history-of-sibling-messages")
		}
		rb, err := core.NewROBuf(rgen.Marshal(msgs[i]))
		if err != nil {
			c.Note("harness_error", err.Error())
			c.Observe("harness_errors", 1)
			return
		}
		bufs[i] = rb
		defer rb.Free()
	}
	var before [3][32]byte
	for i := range bufs {
		before[i] = sha256.Sum256(bufs[i].B)
	}
	ny := mustZone("America/New_York")
	configs := allExtConfigs()
	var digest []string
	for ci, cfg := range configs {
		// thorough runs every configuration for every case; quick rotates the nyctalerts ones
		if !c.Thorough() && ci >= 6 && (ci-6)%4 != c.Index%4 {
			continue
		}
		if large && !(ci == 0 || ci == 3 || ci == 5 || (ci >= 6 && (ci-6)%7 == c.Index%7)) {
			continue // large feeds: the configurations that skip entities, and a rotating nyctalerts one
		}
		zone := ny
		if ci%3 == 1 {
			zone = nil
		}
		fresh := func() *gtfs.ParseRealtimeOptions {
			return &gtfs.ParseRealtimeOptions{Timezone: zone, Extension: cfg.mk()}
		}
		var base [3]dd
		for i := range bufs {
			rt, err := gtfs.ParseRealtime(bufs[i].B, fresh())
			c.Eval(1)
			base[i] = rtDump(rt, err)
			if i == 0 && err == nil {
				c.Shape(fmt.Sprintf("realtime cfg=%s vehicles=%d alerts=%d trips=%d", cfg.name, len(rt.Vehicles), len(rt.Alerts), len(rt.Trips)))
			}
		}
		if large {
			c.Feature("large-feeds-size-sweep")
		}
		digest = append(digest, cfg.name+"="+shortHash(base[0].ord+base[1].ord+base[2].ord)+"/"+shortHash(base[0].norm+base[1].norm+base[2].norm))
		detail := func(extra map[string]any) map[string]any {
			extra["configuration"] = cfg.name
			extra["message_A"] = prototextOf(msgs[0])
			return extra
		}
		// repeated parses with fresh options
		for k := 0; k < repeats; k++ {
			rt, err := gtfs.ParseRealtime(bufs[0].B, fresh())
			c.Eval(1)
			if c06Compare(c, "nondeterministic|realtime", base[0], rtDump(rt, err), detail(map[string]any{"repeat": k}),
				fmt.Sprintf("realtime feed parsed again with fresh options (%s)", cfg.name)) {
				break
			}
		}
		// history with one reused options (and extension) object
		shared := fresh()
		sharedBefore := *shared
		defer func(cfgName string) {
			// "equivalent options": a parse must leave the caller's options value as it found it, or the next parse is no longer
			// given the options the caller wrote
			c.Cmp(1)
			extChanged := fmt.Sprintf("%T", shared.Extension) != fmt.Sprintf("%T", sharedBefore.Extension)
			if shared.Timezone != sharedBefore.Timezone || extChanged {
				c.Violationf("C06|options-value-modified|"+strings.SplitN(cfgName, "{", 2)[0], map[string]any{"configuration": cfgName, "timezone_before": fmt.Sprint(sharedBefore.Timezone), "timezone_after": fmt.Sprint(shared.Timezone)},
					"ParseRealtime changed the caller's options value (%s): Timezone %v -> %v, Extension changed: %v", cfgName, sharedBefore.Timezone, shared.Timezone, extChanged)
			}
		}(cfg.name)
		hist := []int{0, 1, 0, 2, 0, 1, 2, 0}
		for k, i := range hist {
			rt, err := gtfs.ParseRealtime(bufs[i].B, shared)
			c.Eval(1)
			extFamily := strings.SplitN(cfg.name, "{", 2)[0]
			if c06Compare(c, "history-dependent|"+extFamily, base[i], rtDump(rt, err), detail(map[string]any{"history": fmt.Sprint(hist[:k+1])}),
				fmt.Sprintf("with a reused options/extension object (%s) parse %d of the history %v differs from the same bytes parsed with fresh options", cfg.name, k, hist[:k+1])) {
				break
			}
		}
	}
	// equivalent options
	for _, eq := range []struct {
		name string
		a, b func() *gtfs.ParseRealtimeOptions
	}{
		{"nil-extension vs NoExtension", func() *gtfs.ParseRealtimeOptions { return &gtfs.ParseRealtimeOptions{} }, func() *gtfs.ParseRealtimeOptions {
			return &gtfs.ParseRealtimeOptions{Extension: extensions.NoExtension()}
		}},
		{"nil zone vs time.UTC", func() *gtfs.ParseRealtimeOptions { return &gtfs.ParseRealtimeOptions{} }, func() *gtfs.ParseRealtimeOptions { return &gtfs.ParseRealtimeOptions{Timezone: time.UTC} }},
		{"time.UTC vs LoadLocation(UTC)", func() *gtfs.ParseRealtimeOptions { return &gtfs.ParseRealtimeOptions{Timezone: time.UTC} }, func() *gtfs.ParseRealtimeOptions {
			return &gtfs.ParseRealtimeOptions{Timezone: mustZone("UTC")}
		}},
		{"two loads of America/New_York", func() *gtfs.ParseRealtimeOptions {
			return &gtfs.ParseRealtimeOptions{Timezone: mustZone("America/New_York")}
		}, func() *gtfs.ParseRealtimeOptions {
			return &gtfs.ParseRealtimeOptions{Timezone: mustZone("America/New_York")}
		}},
	} {
		ra, ea := gtfs.ParseRealtime(bufs[1].B, eq.a())
		rb, eb := gtfs.ParseRealtime(bufs[1].B, eq.b())
		c.Eval(2)
		c06Compare(c, "equivalent-options-differ|"+eq.name, rtDump(ra, ea), rtDump(rb, eb), map[string]any{}, "equivalent options ("+eq.name+") give different results")
	}
	for i := range bufs {
		c.Cmp(1)
		if sha256.Sum256(bufs[i].B) != before[i] {
			c.Violation("C06|input-modified|realtime", "ParseRealtime modified its input bytes", nil)
		}
	}
	c.Digest(fmt.Sprintf("realtime:%d", c.Index), strings.Join(digest, ";"))
	if c.WantSample() {
		c.Sample(map[string]any{"kind": "realtime", "entities_A": len(msgs[0].Entity), "configurations": len(digest), "history": "A,B,A,C,A,B,C,A with one options object", "message_A": prototextOf(msgs[0])})
	}
}
