package mon

import (
	"fmt"
	"runtime/debug"
	"strings"

	"github.com/jamespfennell/gtfs"

	"verifharness/canon"
	"verifharness/core"
	"verifharness/sgen"
)

func init() {
	core.Register(&core.Property{
		ID:    "C09",
		Level: "exploration",
		Rule: "each case draws a well-formed feed M and walks an enumerated matrix: every rejection cause the statement names (blank required cell per required column; unparseable required number, time, date; unknown required reference) x every file where it applies x position {first, middle, last, three scattered, ten consecutive copies}, plus rejected rows that carry live references or reuse existing ids; parse(M + bad rows) is compared with parse(M) (Warnings removed) and every reported warning is checked against the rendered file; " +
			"distinct_nontrivial counts distinct (file, cause, position, accepted row-count vector of M) signatures; the per-cell counts are in coverage.features",
		Cases: func(tier string) int {
			if tier == "thorough" {
				return 1600
			}
			return 130
		},
		Run: runC09,
		Assumptions: []string{
			"only rows the statement calls rejected are injected (tolerated rows such as unknown shape ids, unknown exception types or one-sided stop times are not part of the matrix)",
			"a warning is never demanded; every reported warning with a row number >= 1 must name a file of the archive, carry exactly the cells of that 1-based data row, and be about an injected row",
		},
	})
}

// safeParseStaticStack is safeParseStatic that also returns the classified crash signature.
func safeParseStaticStack(b []byte, opts gtfs.ParseStaticOptions) (s *gtfs.Static, err error, crashSig, crashMsg, stack string) {
	defer func() {
		if r := recover(); r != nil {
			st := string(debug.Stack())
			if i := strings.Index(st, "panic("); i >= 0 {
				st = st[i:]
			}
			crashMsg = fmt.Sprint(r)
			crashSig, _ = core.ClassifyStack(crashMsg, st)
			stack = core.Trunc(st, 3000)
		}
	}()
	s, err = gtfs.ParseStatic(b, opts)
	return
}

type c09Cell struct {
	file  string
	cause string
	// make returns one bad row (full width, canonical header order); k distinguishes fresh ids.
	make func(k int) []string
}

func c09Cells(m *sgen.Model, a *sgen.Archive, r *core.Rand) []c09Cell {
	var cells []c09Cell
	fresh := func(kind string, k int) string { return fmt.Sprintf("bad-%s-%d", kind, k) }
	stopID := func(i int) string { return m.Stops[i%len(m.Stops)].ID }
	tripID := func() string { return m.Trips[r.Intn(len(m.Trips))].ID }
	validService := m.Trips[0].Service
	filler := map[string]func(k int) []string{
		"agency.txt": func(k int) []string {
			return []string{fresh("agency", k), "Bad Agency", "http://bad", "UTC", "", "", "", ""}
		},
		"routes.txt": func(k int) []string {
			return []string{fresh("route", k), m.Agencies[0].ID, "", "", "", "3", "", "FFFFFF", "000000", "", "1", "1"}
		},
		"stops.txt": func(k int) []string {
			return []string{fresh("stop", k), "", "", "", "", "", "", "", "0", "", "", "0", ""}
		},
		"transfers.txt": func(k int) []string { return []string{stopID(0), stopID(1), "0", ""} },
		"calendar.txt": func(k int) []string {
			return []string{fresh("service", k), "1", "1", "1", "1", "1", "0", "0", "20200101", "20201231"}
		},
		"calendar_dates.txt": func(k int) []string {
			if k%2 == 0 {
				return []string{validService, "20200615", "1"}
			}
			return []string{fresh("service", k), "20200615", "1"}
		},
		"shapes.txt": func(k int) []string {
			id := fresh("shape", k)
			if k%2 == 0 && len(m.ShapePts) > 0 {
				id = m.ShapePts[0].Shape
			}
			return []string{id, "1.5", "2.5", core.Pick(r, []string{"7", "0", "1", "2", "10", "100", "2147483647"}), ""}
		},
		"trips.txt": func(k int) []string {
			return []string{m.Routes[0].ID, validService, fresh("trip", k), "", "", "", "", "", "0", "0"}
		},
		"frequencies.txt": func(k int) []string { return []string{tripID(), "08:00:00", "09:00:00", "600", "0"} },
		"stop_times.txt": func(k int) []string {
			// the rejected row's own sequence number varies: below, between and above the sequences of the trip's valid rows
			seq := core.Pick(r, []string{"5000", "0", "1", "2", "3", "7", "10", "15", "60", "100", "2147483648"})
			return []string{tripID(), "08:00:00", "08:00:00", stopID(r.Intn(len(m.Stops))), seq, "", "0", "0", "1", "1", "", "1"}
		},
	}
	set := func(file, col, val string, base func(int) []string) func(int) []string {
		t := a.Table(file)
		ci := t.Col(col)
		return func(k int) []string {
			row := base(k)
			row[ci] = val
			return row
		}
	}
	for _, t := range a.Tables {
		f := filler[t.Name]
		for _, col := range sgen.RequiredColumns[t.Name] {
			cells = append(cells, c09Cell{t.Name, "blank:" + col, set(t.Name, col, "", f)})
		}
	}
	// a row whose cells are all empty (spreadsheet padding ",,,"): rejected in every file because every file has a required
	// column; it is a data row like any other, so it counts for the row numbers of the rows after it
	for _, t := range a.Tables {
		if len(sgen.RequiredColumns[t.Name]) == 0 || len(t.Header) < 2 {
			continue
		}
		width := len(filler[t.Name](0))
		cells = append(cells, c09Cell{t.Name, "all-cells-empty", func(k int) []string { return make([]string, width) }})
	}
	garbageNum := func() string { return core.Pick(r, []string{"abc", "12x", "1.5.2", "", "1e400x", "--1"}) }
	garbageInt := func() string { return core.Pick(r, []string{"abc", "12x", "1.5", "99999999999999999999"}) }
	garbageTime := func() string { return core.Pick(r, []string{"abc", "12h30", "1:2:3:4", "noon"}) }
	garbageDate := func() string { return core.Pick(r, []string{"2020-01-01", "20201301", "2020011", "abc", "20200230"}) }
	add := func(file, cause string, mk func(int) []string) { cells = append(cells, c09Cell{file, cause, mk}) }
	add("routes.txt", "unknown-ref:agency_id", set("routes.txt", "agency_id", "ghost-agency", filler["routes.txt"]))
	add("routes.txt", "blank:route_type+existing-id", func(k int) []string {
		row := set("routes.txt", "route_type", "", filler["routes.txt"])(k)
		row[0] = m.Routes[k%len(m.Routes)].ID
		return row
	})
	add("stops.txt", "blank:stop_id+parent-of-existing", func(k int) []string {
		row := set("stops.txt", "stop_id", "", filler["stops.txt"])(k)
		row[a.Table("stops.txt").Col("parent_station")] = stopID(k)
		return row
	})
	add("transfers.txt", "unknown-ref:from_stop_id", set("transfers.txt", "from_stop_id", "ghost-stop", filler["transfers.txt"]))
	add("transfers.txt", "unknown-ref:to_stop_id", set("transfers.txt", "to_stop_id", "ghost-stop", filler["transfers.txt"]))
	add("calendar.txt", "bad-date:start_date", func(k int) []string {
		return set("calendar.txt", "start_date", garbageDate(), filler["calendar.txt"])(k)
	})
	add("calendar.txt", "bad-date:end_date", func(k int) []string { return set("calendar.txt", "end_date", garbageDate(), filler["calendar.txt"])(k) })
	add("calendar.txt", "bad-date:end_date+existing-id", func(k int) []string {
		row := set("calendar.txt", "end_date", garbageDate(), filler["calendar.txt"])(k)
		if len(m.Calendar) > 0 {
			row[0] = m.Calendar[k%len(m.Calendar)].Service
		}
		return row
	})
	add("calendar_dates.txt", "bad-date:date", func(k int) []string {
		return set("calendar_dates.txt", "date", garbageDate(), filler["calendar_dates.txt"])(k)
	})
	add("shapes.txt", "bad-number:shape_pt_lat", func(k int) []string { return set("shapes.txt", "shape_pt_lat", garbageNum(), filler["shapes.txt"])(k) })
	add("shapes.txt", "bad-number:shape_pt_lon", func(k int) []string { return set("shapes.txt", "shape_pt_lon", garbageNum(), filler["shapes.txt"])(k) })
	add("shapes.txt", "bad-number:shape_pt_sequence", func(k int) []string {
		return set("shapes.txt", "shape_pt_sequence", garbageInt(), filler["shapes.txt"])(k)
	})
	add("trips.txt", "unknown-ref:route_id", set("trips.txt", "route_id", "ghost-route", filler["trips.txt"]))
	add("trips.txt", "unknown-ref:service_id", set("trips.txt", "service_id", "ghost-service", filler["trips.txt"]))
	add("trips.txt", "unknown-ref:route_id+existing-id", func(k int) []string {
		row := set("trips.txt", "route_id", "ghost-route", filler["trips.txt"])(k)
		row[2] = m.Trips[k%len(m.Trips)].ID
		return row
	})
	add("frequencies.txt", "unknown-ref:trip_id", set("frequencies.txt", "trip_id", "ghost-trip", filler["frequencies.txt"]))
	add("frequencies.txt", "bad-number:headway_secs", func(k int) []string {
		return set("frequencies.txt", "headway_secs", garbageInt(), filler["frequencies.txt"])(k)
	})
	add("frequencies.txt", "bad-time:start_time", func(k int) []string {
		return set("frequencies.txt", "start_time", garbageTime(), filler["frequencies.txt"])(k)
	})
	add("frequencies.txt", "bad-time:end_time", func(k int) []string {
		return set("frequencies.txt", "end_time", garbageTime(), filler["frequencies.txt"])(k)
	})
	add("stop_times.txt", "unknown-ref:trip_id", set("stop_times.txt", "trip_id", "ghost-trip", filler["stop_times.txt"]))
	add("stop_times.txt", "unknown-ref:stop_id", set("stop_times.txt", "stop_id", "ghost-stop", filler["stop_times.txt"]))
	add("stop_times.txt", "bad-number:stop_sequence", func(k int) []string {
		return set("stop_times.txt", "stop_sequence", garbageInt(), filler["stop_times.txt"])(k)
	})
	add("stop_times.txt", "bad-time:both", func(k int) []string {
		row := set("stop_times.txt", "arrival_time", garbageTime(), filler["stop_times.txt"])(k)
		row[2] = garbageTime()
		return row
	})
	return cells
}

var c09Positions = []string{"first", "middle", "last", "scattered", "ten-consecutive", "mixed-with-other-causes"}

func runC09(c *core.Ctx) {
	r := c.R
	m := sgen.Gen(r, sgen.Size{Agencies: 3, Routes: 4, Stops: 8, Transfers: 4, Calendars: 3, CalDates: 5, Shapes: 3, ShapePtsPer: 5, Trips: 6, Freqs: 3, StopTimesPer: 6})
	m.OmitEmptyOptional = false
	base := sgen.Tables(m)
	// every third model is written with some OPTIONAL columns absent from their headers (with and without the injected rows
	// alike): a row rejected for a cell of column X must be just as inert when the neighbouring optional column is not there
	dropped := map[string][]string{}
	if c.Index%3 == 0 {
		for _, t := range base.Tables {
			req := map[string]bool{}
			for _, col := range sgen.RequiredColumns[t.Name] {
				req[col] = true
			}
			for _, col := range t.Header {
				if req[col] || col == "agency_id" || !r.Chance(1, 5) {
					continue // agency_id is required as soon as there are several agencies: without it the base rows are no longer valid
				}
				if t.Name == "stop_times.txt" && (col == "arrival_time" || col == "departure_time") {
					other := map[string]string{"arrival_time": "departure_time", "departure_time": "arrival_time"}[col]
					gone := false
					for _, d := range dropped[t.Name] {
						gone = gone || d == other
					}
					if gone {
						continue
					}
				}
				dropped[t.Name] = append(dropped[t.Name], col)
			}
		}
		if len(dropped) > 0 {
			c.Feature("optional-columns-absent")
		}
		if d := dropped["stop_times.txt"]; len(d) > 0 {
			for _, col := range d {
				if col == "arrival_time" || col == "departure_time" {
					c.Feature("stop_times-without-" + col)
				}
			}
		}
	}
	applyDrops := func(a *sgen.Archive) *sgen.Archive {
		for file, cols := range dropped {
			for _, col := range cols {
				a.Table(file).DropCol(col)
			}
		}
		return a
	}
	b0 := sgen.Encode(applyDrops(base.Clone()), &sgen.Presentation{Plain: true})
	s0, err := gtfs.ParseStatic(b0, gtfs.ParseStaticOptions{})
	c.Eval(1)
	if err != nil {
		c.Violationf("C09|parse-error", map[string]any{"error": err.Error()}, "ParseStatic rejected the well-formed base feed: %v", err)
		return
	}
	want := canon.DumpStaticMode(s0, true, false, false)
	rowVec := fmt.Sprintf("a%d r%d s%d t%d tr%d", len(s0.Agencies), len(s0.Routes), len(s0.Stops), len(s0.Transfers), len(s0.Trips))
	if len(s0.Warnings) != 0 {
		c.Violationf("C09|warning-on-well-formed-feed", map[string]any{"warnings": fmt.Sprint(s0.Warnings)}, "a well-formed feed produced %d warnings", len(s0.Warnings))
	}
	cells := c09Cells(m, base, r)
	{
		// a cell that makes its row invalid through a column that is not written is no rejection cause in this model
		var kept []c09Cell
		for _, cell := range cells {
			ok := true
			for _, col := range dropped[cell.file] {
				if strings.Contains(cell.cause, ":"+col) {
					ok = false
				}
			}
			if ok {
				kept = append(kept, cell)
			}
		}
		cells = kept
	}
	skipsBefore := core.LibSkips()
	sampled := false
	// long runs of rejected rows (size thresholds) for a few random cells of this model
	longRun := map[int][]string{}
	for k := 0; k < 6; k++ {
		ci := r.Intn(len(cells))
		n := core.Pick(r, []int{257, 1001, 1025})
		if c.Thorough() {
			n = core.Pick(r, []int{257, 1001, 1025, 4097})
		}
		longRun[ci] = append(longRun[ci], fmt.Sprintf("%d-consecutive", n))
	}
	baseDropped := applyDrops(base.Clone())
	for ci, cell := range cells {
		for _, pos := range append(append([]string{}, c09Positions...), longRun[ci]...) {
			a := base.Clone()
			t := a.Table(cell.file)
			injected := map[string]bool{}
			ins := func(at int, row []string) {
				t.InsertRow(at, row)
			}
			n := len(t.Rows)
			switch pos {
			case "first":
				ins(0, cell.make(1))
			case "middle":
				ins(n/2, cell.make(1))
			case "last":
				ins(n, cell.make(1))
			case "scattered":
				for k := 0; k < 3; k++ {
					ins(r.Intn(len(t.Rows)+1), cell.make(k+1))
				}
			case "mixed-with-other-causes":
				// this row next to rejected rows of other kinds in the same file (a warning about any of them must still
				// carry its own row number and cells)
				ins(r.Intn(len(t.Rows)+1), cell.make(1))
				var same []c09Cell
				for _, o := range cells {
					if o.file == cell.file {
						same = append(same, o)
					}
				}
				for k := 0; k < 3; k++ {
					ins(r.Intn(len(t.Rows)+1), core.Pick(r, same).make(k+2))
				}
			case "ten-consecutive":
				at := r.Intn(n + 1)
				row := cell.make(1)
				for k := 0; k < 10; k++ {
					ins(at, append([]string(nil), row...))
				}
			default:
				var run int
				fmt.Sscanf(pos, "%d-consecutive", &run)
				at := r.Intn(n + 1)
				row := cell.make(1)
				block := make([][]string, run)
				for k := range block {
					block[k] = append([]string(nil), row...)
				}
				t.Rows = append(append(append([][]string{}, t.Rows[:at]...), block...), t.Rows[at:]...)
				pos = "long-run"
			}
			applyDrops(a)
			// remember which rows of the rendered file are injected (by content; injected rows differ from all base rows)
			baseRows := map[string]bool{}
			for _, row := range baseDropped.Table(cell.file).Rows {
				baseRows[strings.Join(row, "\x00")] = true
			}
			for _, row := range t.Rows {
				k := strings.Join(row, "\x00")
				if !baseRows[k] {
					injected[k] = true
				}
			}
			b := sgen.Encode(a, &sgen.Presentation{Plain: true})
			s, err, crashSig, crashMsg, stack := safeParseStaticStack(b, gtfs.ParseStaticOptions{})
			c.Eval(1)
			c.Feature("cell:" + cell.file + "/" + cell.cause + "/" + pos)
			c.Shape(cell.file + "/" + cell.cause + "/" + pos + " " + rowVec)
			detail := map[string]any{"file": cell.file, "cause": cell.cause, "position": pos, "file_rows": t.Rows, "header": t.Header}
			if crashSig != "" {
				detail["panic"] = crashMsg
				detail["stack"] = stack
				c.Violationf(crashSig, detail, "rejected row (%s in %s, %s) crashed the parser: %s", cell.cause, cell.file, pos, crashMsg)
				continue
			}
			if err != nil {
				detail["error"] = err.Error()
				c.Violationf("C09|not-inert|"+cell.file+"|"+cell.cause+"|parse-error", detail, "adding a rejected row (%s in %s, %s) made ParseStatic fail: %v", cell.cause, cell.file, pos, err)
				continue
			}
			have := canon.DumpStaticMode(s, true, false, false)
			c.Cmp(1)
			if path, desc, differ := diffPath(want, have); differ {
				detail["diff_without_vs_with_bad_rows"] = desc
				c.Violationf("C09|not-inert|"+cell.file+"|"+cell.cause+"|"+path, detail, "adding a rejected row (%s in %s, %s) changed the result: %s", cell.cause, cell.file, pos, desc)
			}
			// warnings
			for _, w := range s.Warnings {
				if w.RowNumber < 1 {
					continue
				}
				c.Cmp(1)
				c.Observe("warnings_checked", 1)
				wt := a.Table(string(w.File))
				wd := map[string]any{"file": cell.file, "cause": cell.cause, "position": pos, "warning_file": string(w.File), "warning_row_number": w.RowNumber, "warning_cells": w.RowContent, "warning": w.Kind.Error()}
				if wt == nil {
					c.Violationf("C09|warning-names-unknown-file", wd, "warning names file %q which is not in the archive", w.File)
					continue
				}
				wd["file_rows"] = wt.Rows
				if w.RowNumber > len(wt.Rows) {
					c.Violationf("C09|warning-row-number-out-of-range|"+string(w.File), wd, "warning names row %d of %s which has %d rows", w.RowNumber, w.File, len(wt.Rows))
					continue
				}
				row := wt.Rows[w.RowNumber-1]
				if strings.Join(row, "\x00") != strings.Join(w.RowContent, "\x00") {
					c.Violationf("C09|warning-cells-are-not-the-row|"+string(w.File), wd, "warning for row %d of %s shows cells %q but that row is %q", w.RowNumber, w.File, w.RowContent, row)
					continue
				}
				if strings.Join(wt.Header, "\x00") != strings.Join(w.HeaderContent, "\x00") {
					c.Violationf("C09|warning-header-wrong|"+string(w.File), wd, "warning header %q differs from the file header %q", w.HeaderContent, wt.Header)
				}
				if string(w.File) != cell.file || !injected[strings.Join(row, "\x00")] {
					c.Violationf("C09|warning-about-a-valid-row|"+string(w.File), wd, "warning is about row %d of %s, which is not an injected row", w.RowNumber, w.File)
				}
			}
			if !sampled && c.WantSample() && pos == "middle" && c.R.Chance(1, 20) {
				sampled = true
				c.Sample(map[string]any{"file": cell.file, "cause": cell.cause, "position": pos, "header": t.Header, "rows_with_injected": t.Rows, "warnings": len(s.Warnings)})
			}
		}
	}
	// several files at once: one rejected row of a random cause in every file, at random positions
	nMulti := 12
	if c.Thorough() {
		nMulti = 40
	}
	for k := 0; k < nMulti; k++ {
		a := base.Clone()
		var what []string
		byFile := map[string][]c09Cell{}
		for _, cell := range cells {
			byFile[cell.file] = append(byFile[cell.file], cell)
		}
		for _, t := range a.Tables {
			if len(byFile[t.Name]) == 0 || r.Chance(1, 4) {
				continue
			}
			cell := core.Pick(r, byFile[t.Name])
			n := 1 + r.Intn(3)
			for j := 0; j < n; j++ {
				t.InsertRow(r.Intn(len(t.Rows)+1), cell.make(100+j))
			}
			what = append(what, t.Name+"/"+cell.cause)
		}
		applyDrops(a)
		b := sgen.Encode(a, &sgen.Presentation{Plain: false, R: r.Fork(), NoExtraCols: false})
		s, err, crashSig, crashMsg, stack := safeParseStaticStack(b, gtfs.ParseStaticOptions{InheritWheelchairBoarding: k%2 == 1})
		c.Eval(1)
		c.Feature("multi-file-injection")
		detail := map[string]any{"injected": what}
		if crashSig != "" {
			detail["panic"], detail["stack"] = crashMsg, stack
			c.Violationf(crashSig, detail, "rejected rows in several files crashed the parser: %s", crashMsg)
			continue
		}
		if err != nil {
			c.Violationf("C09|not-inert|multi-file|parse-error", detail, "adding rejected rows to several files made ParseStatic fail: %v", err)
			continue
		}
		wantK := want
		if k%2 == 1 {
			sInh, _ := gtfs.ParseStatic(b0, gtfs.ParseStaticOptions{InheritWheelchairBoarding: true})
			wantK = canon.DumpStaticMode(sInh, true, false, false)
		}
		c.Cmp(1)
		if path, desc, differ := diffPath(wantK, canon.DumpStaticMode(s, true, false, false)); differ {
			detail["diff_without_vs_with_bad_rows"] = desc
			c.Violationf("C09|not-inert|multi-file|"+path, detail, "adding rejected rows to several files (%v, random presentation) changed the result: %s", what, desc)
		}
	}
	c.Observe("library_skip_lines_during_matrix", int(core.LibSkips()-skipsBefore))
}
