package mon

import (
	"crypto/sha256"
	"fmt"
	"strings"
	"time"

	"github.com/jamespfennell/gtfs"
	"github.com/jamespfennell/gtfs/extensions/nycttrips"
	"github.com/jamespfennell/gtfs/journal"
	gtfsrt "github.com/jamespfennell/gtfs/proto"
	"google.golang.org/protobuf/proto"

	"verifharness/core"
	"verifharness/rgen"
	"verifharness/sgen"
)

func c05Counts(tier string) int {
	if tier == "thorough" {
		return 30000
	}
	return 1800
}

func init() {
	core.Register(&core.Property{
		ID:    "C05",
		Level: "exploration",
		Rule: "seeded structure-aware mutation, three corpora interleaved by case index: (1) static: valid model -> 0-8 semantic corruptions (hostile cells, dangling/blank/wrong-kind references, duplicate ids, parent cycles, blank required cells, row shuffles/duplications/deletions) -> header renaming/duplication/removal, member removal/duplication/emptying -> byte flips, truncation and splices of members and of the zip, random bytes as zip; both InheritWheelchairBoarding values; (2) realtime: valid message -> field-level hostility (ids shorter than 6, nil stop ids, empty descriptors, malformed dates/times, sort_order without colon, elevator-like ids, multi-payload and empty entities, missing required fields) -> wire-level flips/truncation/splices/length corruption, random bytes; every input under all 30 extension configurations; (3) journal: single feeds, repeated feeds and shuffled triples of successfully parsed results through BuildJournal with three windows, then ExportToCsv. After every successful parse all accessors run (Root, Hash into sha256, nil-safe getters on nil and non-nil receivers). " +
			"distinct_nontrivial counts distinct (corpus, mutation-kind set, outcome class) signatures; a case that uses > 25 CPU-seconds is re-run alone and must finish within 60 CPU-seconds",
		Cases:          c05Counts,
		Run:            runC05,
		HangCPUSeconds: 25,
		Replicas: func(tier string) int {
			if tier == "thorough" {
				return 2
			}
			return 1
		},
		AltBinLastReplica: "vmon-race",
		Assumptions: []string{
			"'always terminates' is monitored as bounded progress: every case must finish within 60 CPU-seconds in a process of its own (inputs are <= 1 MiB decompressed, normal cost micro- to milliseconds); a wall-clock timeout is inconclusive, never a violation",
			"thorough runs the same case list a second time on the -race build (checkptr instrumentation of unsafe pointer arithmetic in protobuf-go's fast path)",
		},
	})
}

func mutateBytes(r *core.Rand, b []byte) ([]byte, string) {
	if len(b) == 0 {
		return []byte{byte(r.Intn(256))}, "grow-empty"
	}
	out := append([]byte(nil), b...)
	switch r.Intn(7) {
	case 0:
		n := 1 + r.Intn(4)
		for i := 0; i < n; i++ {
			out[r.Intn(len(out))] ^= byte(1 << uint(r.Intn(8)))
		}
		return out, "bit-flips"
	case 1:
		return out[:r.Intn(len(out))], "truncate"
	case 2:
		at := r.Intn(len(out) + 1)
		junk := make([]byte, 1+r.Intn(12))
		for i := range junk {
			junk[i] = byte(r.Intn(256))
		}
		return append(append(append([]byte(nil), out[:at]...), junk...), out[at:]...), "splice-random"
	case 3:
		a := r.Intn(len(out))
		l := 1 + r.Intn(len(out)-a)
		chunk := append([]byte(nil), out[a:a+l]...)
		at := r.Intn(len(out) + 1)
		return append(append(append([]byte(nil), out[:at]...), chunk...), out[at:]...), "duplicate-chunk"
	case 4:
		out[r.Intn(len(out))] = byte(r.Intn(256))
		return out, "byte-set"
	case 5:
		// length-prefix style corruption: set a byte to a large varint continuation
		i := r.Intn(len(out))
		out[i] = 0x80 | byte(r.Intn(128))
		return out, "varint-continuation"
	default:
		a := r.Intn(len(out))
		return out[a:], "drop-prefix"
	}
}

// ---------- static corpus ----------

func c05StaticInput(r *core.Rand) ([]byte, []string) {
	var kinds []string
	if r.Chance(1, 25) {
		b := make([]byte, r.Intn(200))
		for i := range b {
			b[i] = byte(r.Intn(256))
		}
		return b, []string{"random-bytes-as-zip"}
	}
	m := sgen.Gen(r, sgen.SmallSize)
	if r.Chance(1, 12) {
		// long parent_station rings and chains at size thresholds (Root() is called on every stop afterwards)
		L := core.Pick(r, core.Thresholds(2100)[3:])
		m = sgen.Gen(r, sgen.Size{Agencies: 1, Routes: 1, Stops: L + 2, Transfers: 1, Calendars: 1, CalDates: 1, Shapes: 0, ShapePtsPer: 1, Trips: 1, Freqs: 0, StopTimesPer: 2, Exact: true})
		a := sgen.Tables(m)
		sgen.ParentRing(a, L, r.Bool(), r)
		return sgen.Encode(a, &sgen.Presentation{Plain: true}), []string{"long-parent-ring"}
	}
	a := sgen.Tables(m)
	if r.Chance(3, 4) {
		done := sgen.Corrupt(a, r, 1+r.Intn(8))
		for _, d := range done {
			k := d
			if i := strings.IndexAny(k, ":="); i > 0 {
				k = k[:i]
			}
			kinds = append(kinds, "sem:"+k)
		}
	}
	var names []string
	var datas [][]byte
	for _, t := range a.Tables {
		header := append([]string(nil), t.Header...)
		rows := t.Rows
		if r.Chance(1, 12) {
			switch r.Intn(4) {
			case 0:
				header[r.Intn(len(header))] = core.Pick(r, []string{"", "x", header[0], "stop_id", "trip_id", " "})
				kinds = append(kinds, "header-rename")
			case 1:
				i := r.Intn(len(header))
				header = append(header[:i:i], header[i+1:]...)
				nr := make([][]string, len(rows))
				for k, row := range rows {
					nr[k] = append(append([]string(nil), row[:i]...), row[i+1:]...)
				}
				rows = nr
				kinds = append(kinds, "header-remove-column")
			case 2:
				// ragged row: one row with a different number of cells
				if len(rows) > 0 {
					nr := append([][]string(nil), rows...)
					k := r.Intn(len(nr))
					if r.Bool() {
						nr[k] = nr[k][:len(nr[k])-1]
					} else {
						nr[k] = append(append([]string(nil), nr[k]...), "extra")
					}
					rows = nr
					kinds = append(kinds, "ragged-row")
				}
			default:
				header = nil
				rows = nil
				kinds = append(kinds, "empty-member")
			}
		}
		var data []byte
		if header != nil {
			data = sgen.EncodeCSV(header, rows, r.Intn(3), r.Bool(), r.Bool(), r.Chance(1, 4), r)
		}
		if r.Chance(1, 15) {
			var k string
			data, k = mutateBytes(r, data)
			kinds = append(kinds, "member-bytes:"+k)
		}
		if r.Chance(1, 40) {
			kinds = append(kinds, "member-removed:"+t.Name)
			continue
		}
		names = append(names, t.Name)
		datas = append(datas, data)
		if r.Chance(1, 40) {
			names = append(names, t.Name)
			datas = append(datas, data)
			kinds = append(kinds, "member-duplicated")
		}
	}
	z := sgen.EncodeRaw(names, datas)
	if len(names) > 0 && r.Chance(1, 6) {
		// a well-formed archive whose header lies about one member (declared sizes, CRC, method)
		k := core.Pick(r, sgen.LyingKinds)
		z = sgen.EncodeLying(names, datas, r.Intn(len(names)), k)
		kinds = append(kinds, "zip-header-lie:"+k)
	}
	if r.Chance(1, 8) {
		var k string
		z, k = mutateBytes(r, z)
		kinds = append(kinds, "zip-bytes:"+k)
	}
	return z, kinds
}

func kindSet(kinds []string) string {
	seen := map[string]bool{}
	var ks []string
	for _, k := range kinds {
		if i := strings.Index(k, ":"); i > 0 && !strings.HasPrefix(k, "sem:") {
			k = k[:i]
		}
		if !seen[k] {
			seen[k] = true
			ks = append(ks, k)
		}
	}
	sortStrings(ks)
	return strings.Join(ks, ",")
}

func c05Static(c *core.Ctx) {
	r := c.R
	for k := 0; k < 16; k++ {
		b, kinds := c05StaticInput(r)
		outcome := ""
		for _, inherit := range []bool{false, true} {
			s, err := gtfs.ParseStatic(b, gtfs.ParseStaticOptions{InheritWheelchairBoarding: inherit})
			c.Eval(1)
			if err != nil {
				outcome += "error;"
				c.Observe("static_parse_errors", 1)
				continue
			}
			outcome += "ok;"
			c.Observe("static_parse_ok", 1)
			// accessors
			for i := range s.Stops {
				_ = s.Stops[i].Root()
			}
			c.Eval(len(s.Stops))
			for i := range s.Warnings {
				_ = s.Warnings[i].Kind.Error()
			}
		}
		c.Shape("static|" + kindSet(kinds) + "|" + outcome)
		for _, kd := range kinds {
			if i := strings.Index(kd, ":"); i > 0 {
				c.Feature("static-mutation:" + kd[:i])
			} else {
				c.Feature("static-mutation:" + kd)
			}
		}
		if k == 3 && c.WantSample() && len(kinds) > 0 {
			c.Sample(map[string]any{"corpus": "static", "mutations": kinds, "outcome": outcome, "zip_bytes": len(b)})
		}
	}
}

// ---------- realtime corpus ----------

var hostileTripIDs = []string{"", "a", "abc", "12345", "123456", "000000_", "12345_A..N", "999999_A..N", "060350_A..N55R", "é", "\x00\x00\x00\x00\x00\x00\x00"}
var hostileDates = []string{"", "2024-01-01", "99999999", "00000000", "20241301", "2024010", "202401011", "abcdefgh", "２０２４０１０１"}
var hostileTimes = []string{"", "25:61:61", "1:2:3", "::", "99:99:99", "aa:bb:cc", "12:00", "12:00:00 "}
var hostileSortOrders = []string{"", ":", "a:", ":5", "x:99999999999999999999", "MTASBWY:A:-1", "::::3", "a:b", "a: 3", "a:3 "}
var hostileAlertIDs = []string{"#EL", "A#EL", "A27N#EL", "#EL#EL", "AAA#ELx#EL", "A27#EL\n", "é27N#EL1", "lmm:alert", "lmm:planned_work", ""}

func c05HostileMessage(r *core.Rand, tag int) (*gtfsrt.FeedMessage, []string) {
	var m *gtfsrt.FeedMessage
	if r.Bool() {
		m = c06Feed(r, tag)
	} else {
		m = rgen.GenFeed(r, rgen.Opts{MaxTrips: 4, MaxVehs: 3, MaxAlerts: 3, MaxIDLess: 2}).Msg
		addUnrelatedNyctData(r, m)
	}
	var kinds []string
	if r.Chance(1, 3) {
		// every optional sub-message (also inside the NYCT / Mercury payloads) present but EMPTY
		for _, e := range m.Entity {
			if e.Alert != nil && r.Bool() && !proto.HasExtension(e.Alert, gtfsrt.E_MercuryAlert) {
				proto.SetExtension(e.Alert, gtfsrt.E_MercuryAlert, &gtfsrt.MercuryAlert{CreatedAt: rgen.U64(1), UpdatedAt: rgen.U64(2), AlertType: rgen.S("x")})
			}
		}
		if k := rgen.AddEmptySubmessages(r, m, 1, 3); k > 0 {
			kinds = append(kinds, "present-but-empty-submessages")
		}
	}
	if r.Chance(1, 3) {
		// strings with unusual content in the fields that are set (also inside the NYCT / Mercury payloads): many more bytes
		// than characters, long, invalid UTF-8, NUL and control characters
		for _, e := range m.Entity {
			if e.Alert != nil && r.Bool() && !proto.HasExtension(e.Alert, gtfsrt.E_MercuryAlert) {
				proto.SetExtension(e.Alert, gtfsrt.E_MercuryAlert, &gtfsrt.MercuryAlert{CreatedAt: rgen.U64(1), UpdatedAt: rgen.U64(2), AlertType: rgen.S("x"),
					HumanReadableActivePeriod: &gtfsrt.TranslatedString{Translation: []*gtfsrt.TranslatedString_Translation{{Text: rgen.S("Sundays"), Language: rgen.S("en")}}}})
			}
		}
		if k := rgen.SetOddStrings(r, m, 1, 3); k > 0 {
			kinds = append(kinds, "odd-strings")
		}
	}
	n := r.Intn(6)
	for k := 0; k < n && len(m.Entity) > 0; k++ {
		e := core.Pick(r, m.Entity)
		switch r.Intn(14) {
		case 0:
			for _, d := range descriptorsOf(e) {
				d.TripId = rgen.S(core.Pick(r, hostileTripIDs))
			}
			kinds = append(kinds, "hostile-trip-id")
		case 1:
			if e.TripUpdate != nil {
				for _, u := range e.TripUpdate.StopTimeUpdate {
					if r.Bool() {
						u.StopId = nil
					}
				}
				if len(e.TripUpdate.StopTimeUpdate) == 0 {
					e.TripUpdate.StopTimeUpdate = []*gtfsrt.TripUpdate_StopTimeUpdate{{}}
				}
				kinds = append(kinds, "nil-stop-ids")
			}
		case 2:
			if e.TripUpdate != nil {
				e.TripUpdate.Trip = &gtfsrt.TripDescriptor{}
				kinds = append(kinds, "empty-trip-descriptor")
			} else if e.Vehicle != nil {
				e.Vehicle.Trip = &gtfsrt.TripDescriptor{}
				e.Vehicle.Vehicle = &gtfsrt.VehicleDescriptor{}
				kinds = append(kinds, "empty-descriptors")
			}
		case 3:
			for _, d := range descriptorsOf(e) {
				d.StartDate = rgen.S(core.Pick(r, hostileDates))
				d.StartTime = rgen.S(core.Pick(r, hostileTimes))
			}
			kinds = append(kinds, "malformed-date-time")
		case 4:
			if e.Alert != nil {
				for _, s := range e.Alert.InformedEntity {
					proto.SetExtension(s, gtfsrt.E_MercuryEntitySelector, &gtfsrt.MercuryEntitySelector{SortOrder: rgen.S(core.Pick(r, hostileSortOrders))})
				}
				kinds = append(kinds, "hostile-sort-order")
			}
		case 5:
			if e.Alert != nil {
				e.Id = rgen.S(core.Pick(r, hostileAlertIDs))
				kinds = append(kinds, "hostile-alert-id")
			}
		case 6:
			for _, d := range descriptorsOf(e) {
				n := &gtfsrt.NyctTripDescriptor{}
				if r.Bool() {
					n.IsAssigned = proto.Bool(true)
				}
				if r.Chance(1, 3) {
					n.TrainId = rgen.S("")
				}
				proto.SetExtension(d, gtfsrt.E_NyctTripDescriptor, n)
			}
			kinds = append(kinds, "bare-nyct-descriptor")
		case 7:
			// several payloads in one entity
			e.Alert = &gtfsrt.Alert{InformedEntity: []*gtfsrt.EntitySelector{{}}}
			if e.Vehicle == nil {
				e.Vehicle = &gtfsrt.VehiclePosition{}
			}
			kinds = append(kinds, "multi-payload-entity")
		case 8:
			e.TripUpdate, e.Vehicle, e.Alert = nil, nil, nil
			kinds = append(kinds, "empty-entity")
		case 9:
			m.Header.Timestamp = nil
			kinds = append(kinds, "no-header-timestamp")
		case 10:
			if e.Alert != nil {
				e.Alert.InformedEntity = append(e.Alert.InformedEntity, &gtfsrt.EntitySelector{}, &gtfsrt.EntitySelector{Trip: &gtfsrt.TripDescriptor{}}, &gtfsrt.EntitySelector{RouteType: rgen.I32(-2147483648)})
				e.Alert.HeaderText = &gtfsrt.TranslatedString{}
				kinds = append(kinds, "degenerate-selectors")
			}
		case 11:
			if e.TripUpdate != nil {
				e.TripUpdate.Vehicle = &gtfsrt.VehicleDescriptor{}
				for _, u := range e.TripUpdate.StopTimeUpdate {
					u.Arrival = &gtfsrt.TripUpdate_StopTimeEvent{}
					u.Departure = nil
					proto.SetExtension(u, gtfsrt.E_NyctStopTimeUpdate, &gtfsrt.NyctStopTimeUpdate{})
				}
				kinds = append(kinds, "empty-events")
			}
		case 12:
			if e.TripUpdate != nil && e.TripUpdate.Trip != nil {
				e.TripUpdate.Trip.RouteId = rgen.S("M")
				for _, u := range e.TripUpdate.StopTimeUpdate {
					u.StopId = rgen.S(core.Pick(r, []string{"M11", "M11N", "M1", "M18\xff", "M16é", "", "M14S"}))
				}
				kinds = append(kinds, "route-M-odd-stops")
			}
		default:
			// missing required fields (encoded with AllowPartial)
			switch r.Intn(3) {
			case 0:
				e.Id = nil
			case 1:
				m.Header.GtfsRealtimeVersion = nil
			default:
				if e.Vehicle != nil {
					e.Vehicle.Position = &gtfsrt.Position{}
				}
			}
			kinds = append(kinds, "missing-required-field")
		}
	}
	return m, kinds
}

func c05RealtimeInput(r *core.Rand, tag int) ([]byte, []string) {
	if r.Chance(1, 25) {
		b := make([]byte, r.Intn(120))
		for i := range b {
			b[i] = byte(r.Intn(256))
		}
		return b, []string{"random-bytes"}
	}
	m, kinds := c05HostileMessage(r, tag)
	b, err := proto.MarshalOptions{AllowPartial: true}.Marshal(m)
	if err != nil {
		return []byte{}, append(kinds, "marshal-failed")
	}
	if r.Chance(1, 3) {
		n := 1 + r.Intn(3)
		for i := 0; i < n; i++ {
			var k string
			b, k = mutateBytes(r, b)
			kinds = append(kinds, "wire:"+k)
		}
	}
	return b, kinds
}

// c05Accessors runs every accessor on a parse result.
func c05Accessors(c *core.Ctx, rt *gtfs.Realtime) {
	h := sha256.New()
	for i := range rt.Trips {
		rt.Trips[i].Hash(h)
		_ = rt.Trips[i].GetVehicle()
		for k := range rt.Trips[i].StopTimeUpdates {
			_ = rt.Trips[i].StopTimeUpdates[k].GetArrival()
			_ = rt.Trips[i].StopTimeUpdates[k].GetDeparture()
		}
		if v := rt.Trips[i].Vehicle; v != nil {
			v.Hash(h)
			_ = v.GetTrip()
		}
	}
	for i := range rt.Vehicles {
		rt.Vehicles[i].Hash(h)
		_ = rt.Vehicles[i].GetID()
		_ = rt.Vehicles[i].GetTrip()
	}
	var nt *gtfs.Trip
	var nv *gtfs.Vehicle
	var nu *gtfs.StopTimeUpdate
	_ = nt.GetVehicle()
	_ = nv.GetID()
	_ = nv.GetTrip()
	_ = nu.GetArrival()
	_ = nu.GetDeparture()
	c.Eval(len(rt.Trips) + len(rt.Vehicles) + 5)
}

func c05Realtime(c *core.Ctx) {
	r := c.R
	cfgs := allExtConfigs()
	zones := []*time.Location{nil, mustZone("America/New_York")}
	for k := 0; k < 24; k++ {
		b, kinds := c05RealtimeInput(r, c.Index*32+k)
		ok, bad := 0, 0
		for ci, cfg := range cfgs {
			rt, err := gtfs.ParseRealtime(b, &gtfs.ParseRealtimeOptions{Timezone: zones[(ci+k)%2], Extension: cfg.mk()})
			c.Eval(1)
			if err != nil {
				bad++
				continue
			}
			ok++
			c05Accessors(c, rt)
		}
		c.Observe("realtime_parse_ok", ok)
		c.Observe("realtime_parse_errors", bad)
		outcome := "ok"
		if ok == 0 {
			outcome = "error"
		}
		c.Shape("realtime|" + kindSet(kinds) + "|" + outcome)
		for _, kd := range kinds {
			if i := strings.Index(kd, ":"); i > 0 {
				c.Feature("realtime-mutation:" + kd[:i])
			} else {
				c.Feature("realtime-mutation:" + kd)
			}
		}
		if k == 5 && c.WantSample() && len(kinds) > 0 {
			c.Sample(map[string]any{"corpus": "realtime", "mutations": kinds, "configs_ok": ok, "configs_error": bad, "bytes_hex": fmt.Sprintf("%x", truncBytes(b, 300))})
		}
	}
}

// ---------- journal corpus ----------

func c05Journal(c *core.Ctx) {
	r := c.R
	ext := func() *gtfs.ParseRealtimeOptions {
		switch r.Intn(3) {
		case 0:
			return &gtfs.ParseRealtimeOptions{}
		case 1:
			return &gtfs.ParseRealtimeOptions{Extension: nycttrips.Extension(nycttrips.ExtensionOpts{FilterStaleUnassignedTrips: true})}
		}
		return &gtfs.ParseRealtimeOptions{Timezone: mustZone("America/New_York"), Extension: nycttrips.Extension(nycttrips.ExtensionOpts{})}
	}
	var feeds []*gtfs.Realtime
	var allKinds []string
	for tries := 0; len(feeds) < 4 && tries < 40; tries++ {
		b, kinds := c05RealtimeInput(r, c.Index*64+tries)
		rt, err := gtfs.ParseRealtime(b, ext())
		c.Eval(1)
		if err == nil {
			feeds = append(feeds, rt)
			allKinds = append(allKinds, kinds...)
		}
	}
	if len(feeds) == 0 {
		c.Skip("no-feed-parsed")
		return
	}
	var seqs [][]*gtfs.Realtime
	for _, f := range feeds {
		seqs = append(seqs, []*gtfs.Realtime{f}, []*gtfs.Realtime{f, f})
	}
	for k := 0; k < 4; k++ {
		var s []*gtfs.Realtime
		n := 2 + r.Intn(4)
		for i := 0; i < n; i++ {
			s = append(s, core.Pick(r, feeds))
		}
		seqs = append(seqs, s)
	}
	if c.Index%7 == 3 {
		// a long sequence (a counter, a periodic branch or a capped buffer in the journal is reached): lengths around the
		// usual round numbers
		n := core.Pick(r, []int{255, 256, 257, 999, 1000, 1001, 1024, 2000, 2049})
		var s []*gtfs.Realtime
		for i := 0; i < n; i++ {
			s = append(s, feeds[(i*7+i/5)%len(feeds)])
		}
		seqs = append(seqs, s)
		c.Feature("journal-long-sequence")
	}
	windows := [][2]time.Time{{time.Unix(0, 0), time.Unix(1<<40, 0)}, {time.Unix(c16FeedTs-86400, 0), time.Unix(c16FeedTs+86400, 0)}, {time.Unix(c16FeedTs, 0), time.Unix(0, 0)}, {time.Time{}, time.Unix(1<<50, 0)}}
	trips, stops := 0, 0
	for _, s := range seqs {
		for _, w := range windows {
			j := journal.BuildJournal(&sliceSource{feeds: s}, w[0], w[1])
			c.Eval(1)
			exp, err := j.ExportToCsv()
			c.Eval(1)
			if err == nil && exp != nil {
				trips += len(j.Trips)
				for i := range j.Trips {
					stops += len(j.Trips[i].StopTimes)
				}
			}
		}
	}
	c.Observe("journal_trips_built", trips)
	c.Observe("journal_stop_times_built", stops)
	c.Shape("journal|" + kindSet(allKinds))
	c.Feature("journal-sequences")
	if c.WantSample() {
		c.Sample(map[string]any{"corpus": "journal", "feeds": len(feeds), "sequences": len(seqs), "windows": len(windows), "mutations_in_feeds": kindSet(allKinds), "journal_trips": trips})
	}
}

func runC05(c *core.Ctx) {
	if core.RaceEnabled && c.Index%12 >= 3 {
		// the -race replica (checkptr instrumentation, 5-10x slower) runs every fourth block of the case list
		c.Skip("not-run-on-the-race-build")
		return
	}
	switch c.Index % 3 {
	case 0:
		c05Static(c)
	case 1:
		c05Realtime(c)
	default:
		c05Journal(c)
	}
}
