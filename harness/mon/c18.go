package mon

import (
	"crypto/sha256"
	"fmt"
	"os"
	"path/filepath"
	"regexp"
	"runtime"
	"runtime/debug"
	"sort"
	"strings"
	"sync"
	"sync/atomic"
	"time"

	"github.com/jamespfennell/gtfs"
	"github.com/jamespfennell/gtfs/journal"
	gtfsrt "github.com/jamespfennell/gtfs/proto"

	"google.golang.org/protobuf/proto"

	"verifharness/canon"
	"verifharness/core"
	"verifharness/rgen"
	"verifharness/sgen"
)

func c18Configs() []extConfig {
	all := allExtConfigs()
	out := append([]extConfig{}, all[:6]...) // nil, NoExtension, 4 x nycttrips
	// 6 nyctalerts configurations covering the three policies and every flag
	for _, i := range []int{6 + 0, 6 + 7, 6 + 8 + 1, 6 + 8 + 6, 6 + 16 + 3, 6 + 16 + 4} {
		out = append(out, all[i])
	}
	return out
}

func c18Counts(tier string) int {
	if tier == "thorough" {
		return 12 * 4 * 10
	}
	return 12 * 4 * 2
}

func init() {
	core.Register(&core.Property{
		ID:    "C18",
		Level: "exploration",
		Rule: "race-detector build; each case takes one of 12 extension configurations (nil-extension options, NoExtension, 4 nycttrips, 6 nyctalerts covering the three policies and every flag) with ONE shared options value, a pool of 6 realtime inputs and 2 static archives in PROT_READ pages, and G in {2,4,16,32} goroutines that each make a seeded sequence of ParseRealtime/ParseStatic calls on pool entries (same entry from several goroutines at once and different entries) with seeded Gosched() between calls; then a read phase in which results of different calls are hashed, Root()-walked, canon-dumped and journals exported from several goroutines at once; every case list is run with several seeds of goroutine schedules; " +
			"distinct_nontrivial counts distinct (configuration, G, overlap-degree bucket) signatures of cases whose logical-clock log shows at least one pair of overlapping calls",
		Cases:     c18Counts,
		Run:       runC18,
		Race:      true,
		MaxShards: 4,
		ChildEnv: func(tier, runDir string) []string {
			return []string{"GORACE=halt_on_error=0 exitcode=0 log_path=" + filepath.Join(runDir, "race")}
		},
		Post: c18Post,
		Assumptions: []string{
			"the Go race detector reports an unsynchronised access pair whenever both accesses execute in the run (happens-before based); a race on a path no case reaches is not seen",
			"per-call results are compared order-normalised with the sequential baseline (ordering is C06's subject)",
			"race reports without any gtfs frame are harness errors (inconclusive), never violations",
		},
	})
}

type c18Call struct {
	g, start, end int64
}

var raceSection = regexp.MustCompile(`^(Read|Write|Previous read|Previous write|Atomic read|Atomic write|Previous atomic read|Previous atomic write) at 0x[0-9a-f]+ by (main )?goroutine`)
var lineNo = regexp.MustCompile(`\.func\d+(\.\d+)*`)

// parseRaceLog extracts, for every race report, the innermost gtfs function of both accesses.
func parseRaceLog(text string) (pairs map[string]int, noLib int, total int, example map[string]string) {
	pairs = map[string]int{}
	example = map[string]string{}
	blocks := strings.Split(text, "==================")
	for _, b := range blocks {
		if !strings.Contains(b, "WARNING: DATA RACE") {
			continue
		}
		total++
		var secs [][]string
		var cur []string
		in := false
		for _, l := range strings.Split(b, "\n") {
			if raceSection.MatchString(l) {
				if in {
					secs = append(secs, cur)
				}
				cur, in = nil, true
				continue
			}
			if in {
				t := strings.TrimSpace(l)
				if t == "" {
					secs = append(secs, cur)
					cur, in = nil, false
					continue
				}
				if strings.HasPrefix(l, "  ") && !strings.HasPrefix(t, "/") {
					cur = append(cur, t)
				}
			}
		}
		if in {
			secs = append(secs, cur)
		}
		var fn []string
		for _, s := range secs {
			f := ""
			for _, frame := range s {
				if strings.HasPrefix(frame, "github.com/jamespfennell/gtfs") {
					f = strings.TrimPrefix(frame, "github.com/jamespfennell/")
					if i := strings.Index(f, "("); i > 0 && strings.HasSuffix(f, ")") && !strings.Contains(f[i:], "*") {
						f = f[:i]
					}
					f = strings.TrimSuffix(f, "()")
					f = lineNo.ReplaceAllString(f, ".func")
					break
				}
			}
			fn = append(fn, f)
		}
		for len(fn) < 2 {
			fn = append(fn, "")
		}
		if fn[0] == "" && fn[1] == "" {
			noLib++
			if example["<no gtfs frame>"] == "" {
				example["<no gtfs frame>"] = core.Trunc(b, 3000)
			}
			continue
		}
		p := []string{fn[0], fn[1]}
		sort.Strings(p)
		k := p[0] + "|" + p[1]
		pairs[k]++
		if example[k] == "" {
			example[k] = core.Trunc(b, 4000)
		}
	}
	return
}

func c18Post(p *core.ParentCtx) {
	files, _ := filepath.Glob(filepath.Join(p.RunDir, "race.*"))
	var sb strings.Builder
	for _, f := range files {
		b, err := os.ReadFile(f)
		if err == nil {
			sb.Write(b)
			sb.WriteString("\n")
		}
	}
	pairs, noLib, total, example := parseRaceLog(sb.String())
	p.Observe("race_reports_total", int64(total))
	p.Observe("race_report_files", int64(len(files)))
	p.Observe("distinct_race_frame_pairs", int64(len(pairs)))
	for k, n := range pairs {
		p.Violation("race|"+k, fmt.Sprintf("data race between %s (%d reports)", strings.Replace(k, "|", " and ", 1), n), map[string]any{"report": example[k]})
	}
	if noLib > 0 {
		p.S.Notes["harness_error"] = fmt.Sprintf("%d race reports without a gtfs frame, e.g.\n%s", noLib, example["<no gtfs frame>"])
		p.S.Observed["harness_errors"] += int64(noLib)
	}
}

func runC18(c *core.Ctx) {
	r := c.R
	cfgs := c18Configs()
	cfg := cfgs[c.Index%len(cfgs)]
	G := []int{2, 4, 16, 32}[(c.Index/len(cfgs))%4]
	callsPerG := 14
	if G <= 4 {
		callsPerG = 60
	}
	// vary the degree of real parallelism: different preemption points, different interleavings
	procs := []int{16, 16, 2, 16, 4, 16, 1, 16}[(c.Index/3)%8]
	defer runtime.GOMAXPROCS(runtime.GOMAXPROCS(procs))
	c.Feature(fmt.Sprintf("gomaxprocs:%d", procs))
	// input pool in write-protected pages
	large := c.Index%12 == 5 || c.Index%24 == 11
	if large {
		callsPerG = 10
		if G > 4 {
			G = 4
		}
		c.Feature("large-feeds-size-sweep")
	}
	long := c.Index%12 == 9
	if long {
		callsPerG = 8
		if G > 4 {
			G = 4
		}
	}
	var rtBufs []*core.ROBuf
	for i := 0; i < 6; i++ {
		msg := c06Feed(r, c.Index*8+i)
		if large {
			// all six inputs sit on the same side of one size threshold, so pooled or cached per-size state is shared between them
			sizes := []int{1024, 1100, 1025, 1030, 1024, 1100}
			if (c.Index/12)%2 == 1 {
				sizes = []int{256, 300, 257, 260, 256, 300}
			}
			msg = c06FeedLarge(r, c.Index*8+i, sizes[i])
		}
		if i < 2 {
			// the two hot inputs (parsed by many goroutines at the very start) carry values no earlier case of this process has
			// shown the library: Mercury priorities that are in no table and unique to this case, an id prefix never seen. Whatever
			// a code path does only on the FIRST encounter of a value then happens while other goroutines are inside the parser.
			a := &gtfsrt.Alert{}
			for k := 0; k < 3; k++ {
				sel := &gtfsrt.EntitySelector{RouteId: rgen.S(fmt.Sprintf("NEW%d", k))}
				proto.SetExtension(sel, gtfsrt.E_MercuryEntitySelector, &gtfsrt.MercuryEntitySelector{SortOrder: rgen.S(fmt.Sprintf("MTASBWY:N:%d", 100000+c.Index*16+i*4+k))})
				a.InformedEntity = append(a.InformedEntity, sel)
			}
			eff := gtfsrt.Alert_Effect(1 + (c.Index+i)%10)
			a.Effect = &eff
			msg.Entity = append(msg.Entity, &gtfsrt.FeedEntity{Id: rgen.S(fmt.Sprintf("first-seen-%d-%d", c.Index, i)), Alert: a})
		}
		if long {
			// long values: one trip with hundreds of stop time updates and a vehicle with a 20 KiB label in every input, so
			// that hashing / dumping a single value from several goroutines runs through any size-triggered scratch path
			n := []int{300, 520, 330, 400, 350, 600}[i]
			tu := &gtfsrt.TripUpdate{Trip: &gtfsrt.TripDescriptor{TripId: rgen.S(fmt.Sprintf("long-trip-%d", i)), RouteId: rgen.S("LONG")},
				Vehicle: &gtfsrt.VehicleDescriptor{Id: rgen.S(fmt.Sprintf("long-veh-%d", i)), Label: rgen.S(strings.Repeat("L", 20000+i))}}
			for k := 0; k < n; k++ {
				tu.StopTimeUpdate = append(tu.StopTimeUpdate, rgen.GenStopTimeUpdate(r, k))
			}
			msg.Entity = append(msg.Entity, &gtfsrt.FeedEntity{Id: rgen.S(fmt.Sprintf("long-%d", i)), TripUpdate: tu})
			if i == 0 {
				c.Feature("long-values:trip-with-300+-updates-and-20KiB-label")
			}
		}
		rb, err := core.NewROBuf(rgen.Marshal(msg))
		if err != nil {
			c.Note("harness_error", err.Error())
			c.Observe("harness_errors", 1)
			return
		}
		rtBufs = append(rtBufs, rb)
		defer rb.Free()
	}
	var stBufs []*core.ROBuf
	for i := 0; i < 2; i++ {
		m := sgen.Gen(r, sgen.Size{Agencies: 2, Routes: 4, Stops: 12, Transfers: 4, Calendars: 6, CalDates: 6, Shapes: 4, ShapePtsPer: 5, Trips: 8, Freqs: 3, StopTimesPer: 6})
		rb, err := core.NewROBuf(sgen.Encode(sgen.Tables(m), &sgen.Presentation{Plain: false, R: r.Fork()}))
		if err != nil {
			c.Note("harness_error", err.Error())
			c.Observe("harness_errors", 1)
			return
		}
		stBufs = append(stBufs, rb)
		defer rb.Free()
	}
	zone := mustZone("America/New_York")
	if c.Index%3 == 1 {
		zone = nil // the shared options value leaves the time zone to the default
		c.Feature("shared-options-without-timezone")
	}
	// sequential baseline with fresh options: "what the call returns running alone". Three cases out of four compute it AFTER
	// the concurrent phase, so that whatever a code path does only the first time it runs in a process (lazy initialisation,
	// "log once" bookkeeping, first use of a cache) happens inside the concurrent phase and not in a warm-up before it.
	rtBase := make([]string, len(rtBufs))
	stBase := make([]string, len(stBufs))
	stOpts := gtfs.ParseStaticOptions{InheritWheelchairBoarding: c.Index%2 == 0}
	baseline := func() {
		for i, b := range rtBufs {
			rt, err := gtfs.ParseRealtime(b.B, &gtfs.ParseRealtimeOptions{Timezone: zone, Extension: cfg.mk()})
			rtBase[i] = rtDump(rt, err).norm
		}
		for i, b := range stBufs {
			s, err := gtfs.ParseStatic(b.B, stOpts)
			if err != nil {
				stBase[i] = "error: " + err.Error()
			} else {
				stBase[i] = canon.DumpStatic(s, false, true)
			}
		}
	}
	baselineFirst := c.Index%4 == 0
	if baselineFirst {
		baseline()
		c.Feature("baseline-before-the-concurrent-phase")
	} else {
		c.Feature("baseline-after-the-concurrent-phase")
	}
	type c18Out struct {
		static bool
		input  int
		dump   string
	}
	outs := make([][]c18Out, G)
	// the ONE shared options value
	shared := &gtfs.ParseRealtimeOptions{Timezone: zone, Extension: cfg.mk()}

	var clk atomic.Int64
	var mu sync.Mutex
	var calls []c18Call
	type viol struct {
		sig, what string
		detail    map[string]any
	}
	var viols []viol
	report := func(sig, what string, detail map[string]any) {
		mu.Lock()
		viols = append(viols, viol{sig, what, detail})
		mu.Unlock()
	}
	guard := func(where string) {
		if x := recover(); x != nil {
			st := string(debug.Stack())
			if i := strings.Index(st, "panic("); i >= 0 {
				st = st[i:]
			}
			sig, inLib := core.ClassifyStack(fmt.Sprint(x), st)
			if !inLib {
				mu.Lock()
				c.S.Notes["harness_error"] = fmt.Sprintf("%s: %v\n%s", where, x, core.Trunc(st, 2000))
				c.S.Observed["harness_errors"]++
				mu.Unlock()
				return
			}
			report(sig, fmt.Sprintf("panic during concurrent %s: %v", where, x), map[string]any{"stack": core.Trunc(st, 3000), "configuration": cfg.name, "goroutines": G})
		}
	}
	rtResults := make([][]*gtfs.Realtime, G)
	stResults := make([][]*gtfs.Static, G)
	var evals, cmps atomic.Int64
	var wg sync.WaitGroup
	start := make(chan struct{})
	for g := 0; g < G; g++ {
		wg.Add(1)
		gr := r.Fork()
		go func(g int) {
			defer wg.Done()
			debug.SetPanicOnFault(true)
			defer guard("parsing")
			<-start
			var local []c18Call
			for k := 0; k < callsPerG; k++ {
				if gr.Chance(1, 3) {
					runtime.Gosched()
				}
				if gr.Chance(1, 8) {
					i := gr.Intn(len(stBufs))
					t0 := clk.Add(1)
					s, err := gtfs.ParseStatic(stBufs[i].B, stOpts)
					t1 := clk.Add(1)
					local = append(local, c18Call{int64(g), t0, t1})
					evals.Add(1)
					d := ""
					if err != nil {
						d = "error: " + err.Error()
					} else {
						d = canon.DumpStatic(s, false, true)
						stResults[g] = append(stResults[g], s)
					}
					outs[g] = append(outs[g], c18Out{true, i, d})
					continue
				}
				i := gr.Intn(len(rtBufs))
				if gr.Chance(1, 2) {
					i = k % 2 // hot entries: the same input from several goroutines at once
				}
				t0 := clk.Add(1)
				rt, err := gtfs.ParseRealtime(rtBufs[i].B, shared)
				t1 := clk.Add(1)
				local = append(local, c18Call{int64(g), t0, t1})
				evals.Add(1)
				if err == nil {
					rtResults[g] = append(rtResults[g], rt)
				}
				outs[g] = append(outs[g], c18Out{false, i, rtDump(rt, err).norm})
			}
			mu.Lock()
			calls = append(calls, local...)
			mu.Unlock()
		}(g)
	}
	close(start)
	wg.Wait()
	if !baselineFirst {
		baseline()
	}
	for g := range outs {
		for _, o := range outs[g] {
			cmps.Add(1)
			if o.static {
				if path, desc, differ := diffPath(stBase[o.input], o.dump); differ {
					report("C18|concurrent-result-differs|static|"+path, "a concurrent ParseStatic call returned something else than the same call alone: "+desc, map[string]any{"goroutines": G})
				}
			} else if path, desc, differ := diffPath(rtBase[o.input], o.dump); differ {
				report("C18|concurrent-result-differs|"+strings.SplitN(cfg.name, "{", 2)[0]+"|"+path, "a concurrent ParseRealtime call sharing one options value returned something else than the same call alone with fresh options: "+desc,
					map[string]any{"configuration": cfg.name, "goroutines": G})
			}
		}
	}
	outs = nil

	// read phase: results returned by different calls are read from several goroutines at once
	jrnl := c18Journal(rtResults)
	hashed := make([][]c18Hashed, G)
	for g := 0; g < G; g++ {
		wg.Add(1)
		gr := r.Fork()
		go func(g int) {
			defer wg.Done()
			defer guard("reading results")
			h := sha256.New()
			for k := 0; k < 12; k++ {
				og := gr.Intn(G)
				if len(rtResults[og]) > 0 {
					rt := rtResults[og][gr.Intn(len(rtResults[og]))]
					for i := range rt.Trips {
						rt.Trips[i].Hash(h)
						_ = rt.Trips[i].GetVehicle()
						if i < 10 {
							// the digest of this value, taken while others hash too; recomputed alone afterwards
							hh := sha256.New()
							rt.Trips[i].Hash(hh)
							var d [32]byte
							copy(d[:], hh.Sum(nil))
							hashed[g] = append(hashed[g], c18Hashed{trip: &rt.Trips[i], sum: d})
						}
					}
					for i := range rt.Vehicles {
						rt.Vehicles[i].Hash(h)
						_ = rt.Vehicles[i].GetTrip()
						if i < 10 {
							hh := sha256.New()
							rt.Vehicles[i].Hash(hh)
							var d [32]byte
							copy(d[:], hh.Sum(nil))
							hashed[g] = append(hashed[g], c18Hashed{veh: &rt.Vehicles[i], sum: d})
						}
					}
					_ = canon.DumpRealtime(rt, true)
					evals.Add(1)
				}
				if len(stResults[og]) > 0 {
					s := stResults[og][gr.Intn(len(stResults[og]))]
					for i := range s.Stops {
						_ = s.Stops[i].Root()
					}
					_ = canon.DumpStatic(s, true, true)
					evals.Add(1)
				}
				if jrnl != nil {
					if _, err := jrnl[gr.Intn(len(jrnl))].ExportToCsv(); err != nil {
						report("C18|export-error", "ExportToCsv failed under concurrency: "+err.Error(), nil)
					}
					evals.Add(1)
				}
			}
		}(g)
	}
	wg.Wait()
	// every digest taken during the concurrent read phase equals the digest of the same value hashed alone
	for g := range hashed {
		for _, x := range hashed[g] {
			hh := sha256.New()
			kind := "trip"
			if x.trip != nil {
				x.trip.Hash(hh)
			} else {
				x.veh.Hash(hh)
				kind = "vehicle"
			}
			cmps.Add(1)
			if string(hh.Sum(nil)) != string(x.sum[:]) {
				report("C18|concurrent-hash-differs|"+kind, "a "+kind+" hashed while other goroutines were hashing gives a different digest than the same value hashed alone", nil)
				break
			}
		}
	}

	c.Eval(int(evals.Load()))
	c.Cmp(int(cmps.Load()))
	for _, v := range viols {
		c.Violation(v.sig, v.what, v.detail)
	}
	// offline check of the logical-clock log: did calls actually overlap?
	sort.Slice(calls, func(i, j int) bool { return calls[i].start < calls[j].start })
	overlaps, maxDeg := 0, 0
	type ev struct {
		t   int64
		end bool
	}
	var evs []ev
	for i, a := range calls {
		evs = append(evs, ev{a.start, false}, ev{a.end, true})
		for j := i + 1; j < len(calls) && calls[j].start < a.end; j++ {
			if calls[j].g != a.g {
				overlaps++
			}
		}
	}
	sort.Slice(evs, func(i, j int) bool { return evs[i].t < evs[j].t })
	deg := 0
	for _, e := range evs {
		if e.end {
			deg--
		} else {
			deg++
			if deg > maxDeg {
				maxDeg = deg
			}
		}
	}
	c.Observe("parse_calls_logged", len(calls))
	c.Observe("overlapping_call_pairs", overlaps)
	c.ObserveMax("max_overlap_degree", maxDeg)
	c.Feature("config:" + cfg.name)
	c.Feature(fmt.Sprintf("goroutines:%d", G))
	if overlaps > 0 {
		bucket := "2-3"
		if maxDeg >= 8 {
			bucket = "8+"
		} else if maxDeg >= 4 {
			bucket = "4-7"
		}
		c.Shape(fmt.Sprintf("%s G=%d overlap=%s", cfg.name, G, bucket))
	} else {
		c.Skip("no-overlap-observed-in-this-case")
	}
	if c.WantSample() && overlaps > 0 {
		n := len(calls)
		if n > 12 {
			n = 12
		}
		c.Sample(map[string]any{"configuration": cfg.name, "goroutines": G, "calls": len(calls), "overlapping_pairs": overlaps, "max_overlap_degree": maxDeg, "first_calls_goroutine_start_end": fmt.Sprint(calls[:n])})
	}
}

// c18Journal builds a few journals from parsed NYCT feeds for the concurrent export.
type c18Hashed struct {
	trip *gtfs.Trip
	veh  *gtfs.Vehicle
	sum  [32]byte
}

func c18Journal(results [][]*gtfs.Realtime) []*journal.Journal {
	var feeds []*gtfs.Realtime
	for _, rs := range results {
		for _, rt := range rs {
			ok := true
			for i := range rt.Trips {
				if len(rt.Trips[i].ID.ID) < 6 {
					ok = false
				}
				for _, u := range rt.Trips[i].StopTimeUpdates {
					if u.StopID == nil {
						ok = false
					}
				}
			}
			if ok && len(feeds) < 6 {
				feeds = append(feeds, rt)
			}
		}
	}
	if len(feeds) == 0 {
		// fall back to a directly constructed journal
		return []*journal.Journal{{Trips: []journal.Trip{{TripUID: "1x", TripID: "x", StopTimes: []journal.StopTime{{StopID: "A"}}}}}, {}}
	}
	var out []*journal.Journal
	for i := range feeds {
		src := &sliceSource{feeds: feeds[i:]}
		out = append(out, journal.BuildJournal(src, timeUnix(0), timeUnix(1<<40)))
	}
	return out
}

type sliceSource struct {
	feeds []*gtfs.Realtime
	i     int
}

func (s *sliceSource) Next() *gtfs.Realtime {
	if s.i >= len(s.feeds) {
		return nil
	}
	s.i++
	return s.feeds[s.i-1]
}

var _ = gtfsrt.FeedMessage{}

func timeUnix(s int64) time.Time { return time.Unix(s, 0).UTC() }
