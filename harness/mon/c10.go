package mon

import (
	"fmt"

	"github.com/jamespfennell/gtfs"

	"verifharness/canon"
	"verifharness/core"
	"verifharness/sgen"
)

func init() {
	core.Register(&core.Property{
		ID:    "C10",
		Level: "exploration",
		Rule: "each case draws a well-formed feed in which every default-bearing optional field holds its GTFS default with probability 1/2, 30% of stop times give only arrival or only departure, and the stop forest has station and non-station parents with every wheelchair value; the explicit spelling is compared with the reference model, then every one of the 16 default-bearing columns is respelled alone in each applicable mode (blank cells / column absent / row-by-row mixture) and in random combinations, each parsed with inheritance off and on; " +
			"distinct_nontrivial counts distinct (row-count vector, set of all-default columns, one-sided pattern, inheritance pattern) signatures",
		Cases: func(tier string) int {
			if tier == "thorough" {
				return 6000 + len(c10Sizes(tier))
			}
			return 480 + len(c10Sizes(tier))
		},
		Run: runC10,
		Assumptions: []string{
			"GTFS defaults as listed in the statement: FFFFFF/000000, pickup/drop-off 0, continuous 1, timepoint 1, transfer_type 0, exact_times 0, direction unspecified, wheelchair/bikes 0, location_type 0",
			"for a child whose parent is not a station, or whose parent station is itself unspecified and has a parent, either the own or the inherited value is accepted (statement speaks of the parent station's value only)",
		},
	})
}

// c10Defaultize rewrites the model so that defaults, one-sided times and inheritance situations are frequent.
func c10Defaultize(m *sgen.Model, r *core.Rand) (allDefault map[string]bool, sig string) {
	half := func() bool { return r.Bool() }
	// choose columns that are forced to the default in every row (so that "column absent" is applicable)
	force := map[string]bool{}
	for _, dc := range sgen.DefaultCols {
		if r.Chance(2, 5) {
			force[dc.File+":"+dc.Col] = true
		}
	}
	f := func(key string) bool { return force[key] || half() }
	for i := range m.Routes {
		x := &m.Routes[i]
		if f("routes.txt:route_color") {
			x.Color = "FFFFFF"
		}
		if f("routes.txt:route_text_color") {
			x.TextColor = "000000"
		}
		if f("routes.txt:continuous_pickup") {
			x.ContPickup = 1
		}
		if f("routes.txt:continuous_drop_off") {
			x.ContDropOff = 1
		}
	}
	for i := range m.Stops {
		x := &m.Stops[i]
		if f("stops.txt:location_type") {
			x.LocType = 0
		}
		if f("stops.txt:wheelchair_boarding") {
			x.Wheelchair = 0
		}
	}
	if !force["stops.txt:location_type"] {
		// make parents stations most of the time (after the defaulting above)
		for i := range m.Stops {
			if p := m.Stops[i].Parent; p >= 0 && r.Chance(3, 4) {
				m.Stops[p].LocType = 1
			}
		}
	}
	for i := range m.Transfers {
		if f("transfers.txt:transfer_type") {
			m.Transfers[i].Type = 0
		}
	}
	for i := range m.Trips {
		x := &m.Trips[i]
		if f("trips.txt:direction_id") {
			x.Direction = -1
		}
		if f("trips.txt:wheelchair_accessible") {
			x.Wheelchair = 0
		}
		if f("trips.txt:bikes_allowed") {
			x.Bikes = 0
		}
	}
	for i := range m.Frequencies {
		if f("frequencies.txt:exact_times") {
			m.Frequencies[i].Exact = 0
		}
	}
	oneSided := 0
	for i := range m.StopTimes {
		x := &m.StopTimes[i]
		if f("stop_times.txt:pickup_type") {
			x.Pickup = 0
		}
		if f("stop_times.txt:drop_off_type") {
			x.DropOff = 0
		}
		if f("stop_times.txt:continuous_pickup") {
			x.ContPickup = 1
		}
		if f("stop_times.txt:continuous_drop_off") {
			x.ContDropOff = 1
		}
		if f("stop_times.txt:timepoint") {
			x.Timepoint = 1
		}
		switch r.Intn(10) {
		case 0, 1:
			x.HasDep = false
			oneSided |= 1
		case 2:
			x.HasArr = false
			oneSided |= 2
		}
	}
	inh := 0
	for _, s := range m.Stops {
		if s.Parent >= 0 && s.Wheelchair == 0 {
			p := m.Stops[s.Parent]
			if p.LocType == 1 {
				inh |= 1 << uint(p.Wheelchair)
			} else {
				inh |= 8
			}
		}
	}
	keys := ""
	for _, dc := range sgen.DefaultCols {
		if force[dc.File+":"+dc.Col] {
			keys += dc.Col[:3] + ","
		}
	}
	return force, fmt.Sprintf("forced[%s] onesided=%d inherit=%d", keys, oneSided, inh)
}

func c10Sizes(tier string) []int {
	var out []int
	max := 1100
	if tier == "thorough" {
		max = 4200
	}
	for _, n := range core.Thresholds(max) {
		if n >= 60 {
			out = append(out, n)
		}
	}
	return out
}

func runC10(c *core.Ctx) {
	r := c.R
	sz := sgen.Size{Agencies: 2, Routes: 4, Stops: 10, Transfers: 5, Calendars: 3, CalDates: 4, Shapes: 2, ShapePtsPer: 3, Trips: 5, Freqs: 4, StopTimesPer: 6}
	sized := false
	if sizes := c10Sizes(c.Tier); c.Index < len(sizes) {
		// size sweep: many stops (inheritance over a large forest), everything else small
		sz = sgen.Size{Agencies: 1, Routes: 2, Stops: sizes[c.Index], Transfers: 2, Calendars: 1, CalDates: 1, Shapes: 1, ShapePtsPer: 2, Trips: 2, Freqs: 1, StopTimesPer: 3, Exact: true}
		sized = true
		c.Feature("size-sweep:stops")
	}
	m := sgen.Gen(r, sz)
	force, sig := c10Defaultize(m, r)
	c.Shape(m.ShapeSig() + " " + sig)
	explicit := sgen.Tables(m)
	nVariantsCombo := 6
	if c.Thorough() {
		nVariantsCombo = 12
	}
	if sized {
		nVariantsCombo = 2
	}

	type variant struct {
		name string
		arch *sgen.Archive
		file string
		col  string
		mode string
	}
	modeName := map[int]string{sgen.SpellBlank: "blank", sgen.SpellAbsent: "absent", sgen.SpellMixture: "mixture"}
	var variants []variant
	for _, dc := range sgen.DefaultCols {
		if explicit.Table(dc.File) == nil || (sized && dc.File != "stops.txt") {
			continue
		}
		modes := []int{sgen.SpellBlank, sgen.SpellMixture}
		if force[dc.File+":"+dc.Col] {
			modes = append(modes, sgen.SpellAbsent)
		}
		for _, md := range modes {
			a := explicit.Clone()
			sgen.ApplySpelling(a, dc.File, dc.Col, dc.Default, md, r.Fork())
			variants = append(variants, variant{name: dc.File + ":" + dc.Col + "|" + modeName[md], arch: a, file: dc.File, col: dc.Col, mode: modeName[md]})
		}
	}
	for k := 0; k < nVariantsCombo; k++ {
		a := explicit.Clone()
		desc := ""
		for _, dc := range sgen.DefaultCols {
			md := r.Intn(4)
			if md == sgen.SpellAbsent && !force[dc.File+":"+dc.Col] {
				md = sgen.SpellBlank
			}
			if md != sgen.SpellExplicit {
				sgen.ApplySpelling(a, dc.File, dc.Col, dc.Default, md, r.Fork())
				desc += dc.Col + "=" + modeName[md] + " "
			}
		}
		variants = append(variants, variant{name: "combo: " + desc, arch: a, mode: "combo"})
	}

	for _, inherit := range []bool{false, true} {
		opts := gtfs.ParseStaticOptions{InheritWheelchairBoarding: inherit}
		ref := sgen.Ref(m, inherit)
		ref.Neutralize(ref.Static, m)
		want := canon.DumpStatic(ref.Static, false, false)
		if len(ref.AmbiguousWheelchair) > 0 {
			c.S.Skipped["inheritance-left-open-by-statement"] += int64(len(ref.AmbiguousWheelchair))
		}
		b0 := sgen.Encode(explicit, &sgen.Presentation{Plain: true})
		got0, err := gtfs.ParseStatic(b0, opts)
		c.Eval(1)
		if err != nil {
			c.Violationf("C10|parse-error", map[string]any{"error": err.Error()}, "ParseStatic rejected a well-formed feed: %v", err)
			return
		}
		base := canon.DumpStatic(got0, false, false)
		ref.Neutralize(got0, m)
		have := canon.DumpStatic(got0, false, false)
		c.Cmp(1)
		if path, desc, differ := diffPath(want, have); differ {
			kind := "C10|explicit-mismatch|"
			if inherit {
				kind = "C10|inherit-mismatch|"
			}
			c.Violationf(kind+path, map[string]any{"inherit": inherit, "diff_expected_vs_parsed": desc, "tables": sampleTables(explicit, 6)},
				"explicit spelling, inheritance %v: parsed feed differs from the reference (expected ≠ parsed): %s", inherit, desc)
		}
		if c.WantSample() && inherit {
			c.Sample(map[string]any{"model_shape": m.ShapeSig(), "signature": sig, "variants": len(variants), "tables": sampleTables(explicit, 3)})
		}
		for _, v := range variants {
			bv := sgen.Encode(v.arch, &sgen.Presentation{Plain: true})
			gv, err := gtfs.ParseStatic(bv, opts)
			c.Eval(1)
			c.Feature("spelling:" + v.mode)
			if err != nil {
				c.Violationf("C10|parse-error|"+v.name, map[string]any{"error": err.Error()}, "ParseStatic rejected the %s spelling: %v", v.name, err)
				continue
			}
			dv := canon.DumpStatic(gv, false, false)
			c.Cmp(1)
			if path, desc, differ := diffPath(base, dv); differ {
				sigv := "C10|spelling|" + v.name
				if v.mode == "combo" {
					sigv = "C10|spelling-combo|" + path
				}
				c.Violationf(sigv, map[string]any{"variant": v.name, "inherit": inherit, "diff_explicit_vs_variant": desc, "path": path, "variant_tables": sampleTables(v.arch, 6)},
					"spelling %q gives a different result than the explicit default: %s", v.name, desc)
			}
		}
	}
	// enabling inheritance changes nothing but stops' wheelchair boarding
	b0 := sgen.Encode(explicit, &sgen.Presentation{Plain: true})
	off, err1 := gtfs.ParseStatic(b0, gtfs.ParseStaticOptions{})
	on, err2 := gtfs.ParseStatic(b0, gtfs.ParseStaticOptions{InheritWheelchairBoarding: true})
	c.Eval(2)
	if err1 == nil && err2 == nil {
		o1 := canon.StaticOpts(off, false, false)
		o1.SkipFields["Stop.WheelchairBoarding"] = true
		o2 := canon.StaticOpts(on, false, false)
		o2.SkipFields["Stop.WheelchairBoarding"] = true
		c.Cmp(1)
		if path, desc, differ := diffPath(canon.Dump(off, o1), canon.Dump(on, o2)); differ {
			c.Violationf("C10|inherit-changes-other|"+path, map[string]any{"diff_off_vs_on": desc}, "enabling wheelchair inheritance changed something else: %s", desc)
		}
		// and it only ever changes stops whose own value is unspecified
		for i := range off.Stops {
			c.Cmp(1)
			if off.Stops[i].WheelchairBoarding != on.Stops[i].WheelchairBoarding && off.Stops[i].WheelchairBoarding != gtfs.WheelchairBoarding_NotSpecified {
				c.Violationf("C10|inherit-overrides-own-value", map[string]any{"stop": off.Stops[i].Id}, "inheritance overrode the explicit wheelchair value of stop %q", off.Stops[i].Id)
			}
		}
	}
}
