package mon

import (
	"fmt"
	"math"
	"regexp"
	"time"

	"github.com/jamespfennell/gtfs"
	"github.com/jamespfennell/gtfs/extensions/nycttrips"
	gtfsrt "github.com/jamespfennell/gtfs/proto"
	"google.golang.org/protobuf/proto"

	"verifharness/canon"
	"verifharness/core"
	"verifharness/rgen"
)

const c16FeedTs = 1700000000
const c16OriginCases = 600 // x 1000 ids = all 600000 origin times

var c16OptCombos = []nycttrips.ExtensionOpts{
	{FilterStaleUnassignedTrips: false, PreserveMTrainPlatformsInBushwick: false},
	{FilterStaleUnassignedTrips: true, PreserveMTrainPlatformsInBushwick: false},
	{FilterStaleUnassignedTrips: false, PreserveMTrainPlatformsInBushwick: true},
	{FilterStaleUnassignedTrips: true, PreserveMTrainPlatformsInBushwick: true},
}

// rule table dimensions
var c16Assigned = []string{"absent", "false", "true"}
var c16Dirs = []string{"absent", "NORTH", "EAST", "SOUTH", "WEST"}
var c16Tracks = []string{"none", "scheduled", "actual", "both", "empty-extension"}
var c16First = []string{"no-stops", "no-times", "dep<", "dep=", "dep>", "arr-only<", "arr-only=", "arr-only>", "dep>arr<", "dep<arr>",
	// a departure EVENT without a time (delay only / empty): the departure time is missing, so the arrival time decides
	"dep-delay-only+arr<", "dep-delay-only+arr=", "dep-delay-only+arr>", "dep-empty+arr>", "dep-empty+arr<", "dep-delay-only+no-arr", "arr-delay-only+dep>", "arr-empty+dep<",
	// rare values: instants before 1970 are earlier than any feed timestamp; one second is the smallest positive instant
	"dep-negative", "arr-only-negative", "dep-min-int64", "dep=1", "dep-max-int64"}
var c16IDs = []string{"nyct-format", "other-format"}

func c16TableSize() int {
	return len(c16Assigned) * len(c16Dirs) * len(c16Tracks) * len(c16First) * len(c16IDs)
}

func c16Counts(tier string) (origin, table, vp, mixed int) {
	t := (c16TableSize() + 19) / 20
	if tier == "thorough" {
		return c16OriginCases, t, 60, 500000
	}
	return c16OriginCases, t, 30, 8000
}

func init() {
	core.Register(&core.Property{
		ID:    "C16",
		Level: "exploration",
		Rule: "three enumerated sub-spaces plus random feeds: (1) every origin time 000000-599999 (600 feeds of 1000 NYCT-format trip ids, wire start time set to a decoy); (2) the rule table assigned {absent,false,true} x direction {absent,N,E,S,W} x tracks {none,scheduled,actual,both,empty extension} x first-stop relation {no stops, no times, departure <,=,> feed time, arrival-only <,=,>, departure>/arrival<, departure</arrival>} x id {NYCT format, other} under all 4 option combinations; (3) vehicle positions carrying the NYCT descriptor; (4) random feeds mixing NYCT-extended trips with plain conflict-free entities on route M and others over stops M10-M19 N/S and odd ids, parsed with all 4 option combinations and with no extension; " +
			"distinct_nontrivial counts distinct rule-table cells x option combination, origin-time blocks, and mixed-feed shapes",
		Cases: func(tier string) int { a, b, cc, d := c16Counts(tier); return a + b + cc + d },
		Run:   runC16,
		Assumptions: []string{
			"EAST, WEST and absent NYCT directions are generated but their mapped direction is not asserted (the statement fixes NORTH and SOUTH only)",
			"a time value of 0 is treated as missing by the library; generated times are non-zero",
			"the header timestamp is always present in these feeds",
		},
	})
}

var c16NyctID = regexp.MustCompile(`^([0-9]{6})_([[:alnum:]]{1,2})..([SN])([[:alnum:]]*)$`)

func c16SetNyct(d *gtfsrt.TripDescriptor, assigned, dir string, train string) {
	n := &gtfsrt.NyctTripDescriptor{}
	switch assigned {
	case "false":
		n.IsAssigned = proto.Bool(false)
	case "true":
		n.IsAssigned = proto.Bool(true)
	}
	if train != "" {
		n.TrainId = rgen.S(train)
	}
	switch dir {
	case "NORTH":
		x := gtfsrt.NyctTripDescriptor_NORTH
		n.Direction = &x
	case "EAST":
		x := gtfsrt.NyctTripDescriptor_EAST
		n.Direction = &x
	case "SOUTH":
		x := gtfsrt.NyctTripDescriptor_SOUTH
		n.Direction = &x
	case "WEST":
		x := gtfsrt.NyctTripDescriptor_WEST
		n.Direction = &x
	}
	proto.SetExtension(d, gtfsrt.E_NyctTripDescriptor, n)
}

func c16Stops(first, tracks string, r *core.Rand) []*gtfsrt.TripUpdate_StopTimeUpdate {
	if first == "no-stops" {
		return nil
	}
	mk := func(k int) *gtfsrt.TripUpdate_StopTimeUpdate {
		u := &gtfsrt.TripUpdate_StopTimeUpdate{StopId: rgen.S(fmt.Sprintf("A%02dN", k))}
		switch tracks {
		case "scheduled":
			proto.SetExtension(u, gtfsrt.E_NyctStopTimeUpdate, &gtfsrt.NyctStopTimeUpdate{ScheduledTrack: rgen.S(fmt.Sprintf("S%d", k))})
		case "actual":
			proto.SetExtension(u, gtfsrt.E_NyctStopTimeUpdate, &gtfsrt.NyctStopTimeUpdate{ActualTrack: rgen.S(fmt.Sprintf("A%d", k))})
		case "both":
			proto.SetExtension(u, gtfsrt.E_NyctStopTimeUpdate, &gtfsrt.NyctStopTimeUpdate{ScheduledTrack: rgen.S(fmt.Sprintf("S%d", k)), ActualTrack: rgen.S(fmt.Sprintf("A%d", k))})
		case "empty-extension":
			proto.SetExtension(u, gtfsrt.E_NyctStopTimeUpdate, &gtfsrt.NyctStopTimeUpdate{})
		}
		// the track rule does not depend on the stop's schedule relationship
		if sr := r.Intn(6); sr < 3 {
			x := gtfsrt.TripUpdate_StopTimeUpdate_ScheduleRelationship(sr) // SCHEDULED, SKIPPED, NO_DATA
			u.ScheduleRelationship = &x
		}
		return u
	}
	ev := func(t int64) *gtfsrt.TripUpdate_StopTimeEvent {
		return &gtfsrt.TripUpdate_StopTimeEvent{Time: rgen.I64(t)}
	}
	u0 := mk(0)
	const ts = c16FeedTs
	switch first {
	case "no-times":
		if r.Bool() {
			u0.Arrival = &gtfsrt.TripUpdate_StopTimeEvent{Delay: rgen.I32(5)}
		}
	case "dep<":
		u0.Departure = ev(ts - 1)
	case "dep=":
		u0.Departure = ev(ts)
	case "dep>":
		u0.Departure = ev(ts + 1)
	case "arr-only<":
		u0.Arrival = ev(ts - 1)
	case "arr-only=":
		u0.Arrival = ev(ts)
	case "arr-only>":
		u0.Arrival = ev(ts + 1)
	case "dep>arr<":
		u0.Departure = ev(ts + 30)
		u0.Arrival = ev(ts - 30)
	case "dep<arr>":
		u0.Departure = ev(ts - 30)
		u0.Arrival = ev(ts + 30)
	case "dep-delay-only+arr<":
		u0.Departure = &gtfsrt.TripUpdate_StopTimeEvent{Delay: rgen.I32(30)}
		u0.Arrival = ev(ts - 1)
	case "dep-delay-only+arr=":
		u0.Departure = &gtfsrt.TripUpdate_StopTimeEvent{Delay: rgen.I32(30)}
		u0.Arrival = ev(ts)
	case "dep-delay-only+arr>":
		u0.Departure = &gtfsrt.TripUpdate_StopTimeEvent{Delay: rgen.I32(30), Uncertainty: rgen.I32(1)}
		u0.Arrival = ev(ts + 1)
	case "dep-empty+arr>":
		u0.Departure = &gtfsrt.TripUpdate_StopTimeEvent{}
		u0.Arrival = ev(ts + 1)
	case "dep-empty+arr<":
		u0.Departure = &gtfsrt.TripUpdate_StopTimeEvent{}
		u0.Arrival = ev(ts - 1)
	case "dep-delay-only+no-arr":
		u0.Departure = &gtfsrt.TripUpdate_StopTimeEvent{Delay: rgen.I32(30)}
	case "arr-delay-only+dep>":
		u0.Arrival = &gtfsrt.TripUpdate_StopTimeEvent{Delay: rgen.I32(30)}
		u0.Departure = ev(ts + 1)
	case "arr-empty+dep<":
		u0.Arrival = &gtfsrt.TripUpdate_StopTimeEvent{}
		u0.Departure = ev(ts - 1)
	case "dep-negative":
		u0.Departure = ev(-1 - int64(r.Intn(100000)))
	case "arr-only-negative":
		u0.Arrival = ev(-5)
	case "dep-min-int64":
		u0.Departure = ev(math.MinInt64)
	case "dep=1":
		u0.Departure = ev(1)
	case "dep-max-int64":
		u0.Departure = ev(math.MaxInt64)
	}
	out := []*gtfsrt.TripUpdate_StopTimeUpdate{u0}
	// later stops never matter for staleness: give them times on the other side
	u1 := mk(1)
	if c16Stale(first) {
		u1.Departure = ev(ts + 500)
		u1.Arrival = ev(ts + 400)
	} else {
		u1.Departure = ev(ts - 500)
	}
	return append(out, u1)
}

// c16PreVehicles are the vehicle descriptors an NYCT entity may already carry on the wire. For an assigned trip the
// statement fixes the linked vehicle's id (the train id) whatever was there before; label and plate are not asserted.
// c16TrainIDs are NYCT train ids; the vehicle id of an assigned trip is the train id verbatim, whitespace and case included.
var c16TrainIDs = []string{"TRAIN 7", "TRAIN 7", "06 0123+ PEL/BBR", " TRAIN 7", "TRAIN 7 ", "train 7\t", " ", "Ünï 7"}

var c16PreVehicles = []string{"none", "none", "other-id", "same-id", "label-only", "plate-only", "id+label", "empty-descriptor"}

func c16PreVehicle(kind, train, other string) *gtfsrt.VehicleDescriptor {
	switch kind {
	case "other-id":
		return &gtfsrt.VehicleDescriptor{Id: rgen.S(other)}
	case "same-id":
		return &gtfsrt.VehicleDescriptor{Id: rgen.S(train)}
	case "label-only":
		return &gtfsrt.VehicleDescriptor{Label: rgen.S("label of " + other)}
	case "plate-only":
		return &gtfsrt.VehicleDescriptor{LicensePlate: rgen.S("plate of " + other)}
	case "id+label":
		return &gtfsrt.VehicleDescriptor{Id: rgen.S(other), Label: rgen.S("label of " + other)}
	case "empty-descriptor":
		return &gtfsrt.VehicleDescriptor{}
	}
	return nil
}

func c16Stale(first string) bool {
	switch first {
	case "no-stops", "no-times", "dep<", "arr-only<", "dep<arr>", "dep-delay-only+arr<", "dep-empty+arr<", "dep-delay-only+no-arr", "arr-empty+dep<", "dep-negative", "arr-only-negative", "dep-min-int64", "dep=1":
		return true
	}
	return false
}

func c16ExpectTrack(tracks string, k int) *string {
	switch tracks {
	case "scheduled":
		return rgen.S(fmt.Sprintf("S%d", k))
	case "actual", "both":
		return rgen.S(fmt.Sprintf("A%d", k))
	}
	return nil
}

type c16Cell struct{ assigned, dir, tracks, first, id string }

func c16CellAt(i int) c16Cell {
	var c c16Cell
	c.id = c16IDs[i%len(c16IDs)]
	i /= len(c16IDs)
	c.first = c16First[i%len(c16First)]
	i /= len(c16First)
	c.tracks = c16Tracks[i%len(c16Tracks)]
	i /= len(c16Tracks)
	c.dir = c16Dirs[i%len(c16Dirs)]
	i /= len(c16Dirs)
	c.assigned = c16Assigned[i%len(c16Assigned)]
	return c
}

func originSeconds(n int) time.Duration { return time.Duration((n*3)/5) * time.Second }

func runC16(c *core.Ctx) {
	nO, nT, nV, _ := c16Counts(c.Tier)
	switch {
	case c.Index < nO:
		c16Origin(c, c.Index)
	case c.Index < nO+nT:
		for k := 0; k < 20; k++ {
			i := (c.Index-nO)*20 + k
			if i < c16TableSize() {
				c16Table(c, i)
			}
		}
	case c.Index < nO+nT+nV:
		c16VehiclePositions(c)
	default:
		c16Mixed(c)
	}
}

func c16Origin(c *core.Ctx, block int) {
	m := &gtfsrt.FeedMessage{Header: &gtfsrt.FeedHeader{GtfsRealtimeVersion: rgen.S("1.0"), Timestamp: rgen.U64(c16FeedTs)}}
	suffixes := []string{"_A..N01R", "_6..S", "_GS.N", "_FX..S02", "_1..N"}
	for k := 0; k < 1000; k++ {
		n := block*1000 + k
		id := fmt.Sprintf("%06d%s", n, suffixes[n%len(suffixes)])
		d := &gtfsrt.TripDescriptor{TripId: rgen.S(id), RouteId: rgen.S("A"), StartTime: rgen.S("23:59:59"), StartDate: rgen.S("20231114")}
		dir := "NORTH"
		if n%2 == 1 {
			dir = "SOUTH"
		}
		c16SetNyct(d, "true", dir, fmt.Sprintf("train-%d", n))
		m.Entity = append(m.Entity, &gtfsrt.FeedEntity{Id: rgen.S(fmt.Sprint(n)), TripUpdate: &gtfsrt.TripUpdate{Trip: d}})
	}
	opts := c16OptCombos[block%4]
	rt, err := gtfs.ParseRealtime(rgen.Marshal(m), &gtfs.ParseRealtimeOptions{Extension: nycttrips.Extension(opts)})
	c.Eval(1)
	c.Shape(fmt.Sprintf("origin-block-%d", block))
	c.Observe("origin_times_checked", 0)
	if err != nil {
		c.Violationf("C16|parse-error", map[string]any{"error": err.Error()}, "ParseRealtime rejected the feed: %v", err)
		return
	}
	byID := map[string]*gtfs.Trip{}
	for i := range rt.Trips {
		byID[rt.Trips[i].ID.ID] = &rt.Trips[i]
	}
	for k := 0; k < 1000; k++ {
		n := block*1000 + k
		id := fmt.Sprintf("%06d%s", n, suffixes[n%len(suffixes)])
		t := byID[id]
		c.Cmp(1)
		if t == nil {
			c.Violationf("C16|assigned-trip-dropped", map[string]any{"trip_id": id}, "assigned trip %s is missing from the result", id)
			continue
		}
		c.Observe("origin_times_checked", 1)
		c.Cmp(3)
		if !t.ID.HasStartTime || t.ID.StartTime != originSeconds(n) {
			c.Violationf("C16|origin-time", map[string]any{"trip_id": id, "got": t.ID.StartTime.String(), "has": t.ID.HasStartTime, "want": originSeconds(n).String()},
				"trip %s: start time %v (has=%v), want %v", id, t.ID.StartTime, t.ID.HasStartTime, originSeconds(n))
		}
		wantDir := gtfs.DirectionID_False
		if n%2 == 1 {
			wantDir = gtfs.DirectionID_True
		}
		if t.ID.DirectionID != wantDir {
			c.Violationf("C16|direction", map[string]any{"trip_id": id, "got": t.ID.DirectionID.String()}, "trip %s: direction %v, want %v", id, t.ID.DirectionID, wantDir)
		}
		if t.Vehicle == nil || t.Vehicle.ID == nil || t.Vehicle.ID.ID != fmt.Sprintf("train-%d", n) {
			c.Violationf("C16|assigned-vehicle", map[string]any{"trip_id": id}, "trip %s: assigned trip is not linked to a vehicle whose id is the train id", id)
		}
	}
	if block == 137 && c.WantSample() {
		c.Sample(map[string]any{"kind": "origin-times", "block": block, "first_entity": prototextOf(m.Entity[0]), "parsed_start_time": rt.Trips[0].ID.StartTime.String()})
	}
}

func c16Table(c *core.Ctx, i int) {
	cell := c16CellAt(i)
	if cell.dir == "NORTH" && cell.tracks == "none" {
		c16NoTimestamp(c, cell)
	}
	id := "A20231114WKD_060300_A..N"
	wireStart := "10:03:00"
	var wantStart time.Duration
	if cell.id == "nyct-format" {
		id = "060350_A..N55R"
		wantStart = originSeconds(60350)
	} else {
		wantStart = 10*time.Hour + 3*time.Minute
	}
	for oi, opts := range c16OptCombos {
		d := &gtfsrt.TripDescriptor{TripId: rgen.S(id), RouteId: rgen.S("A"), StartTime: rgen.S(wireStart), StartDate: rgen.S("20231114")}
		train := c16TrainIDs[c.R.Intn(len(c16TrainIDs))]
		c16SetNyct(d, cell.assigned, cell.dir, train)
		pre := c16PreVehicles[c.R.Intn(len(c16PreVehicles))]
		tu := &gtfsrt.TripUpdate{Trip: d, StopTimeUpdate: c16Stops(cell.first, cell.tracks, c.R), Vehicle: c16PreVehicle(pre, train, "car-4471")}
		m := &gtfsrt.FeedMessage{Header: &gtfsrt.FeedHeader{GtfsRealtimeVersion: rgen.S("1.0"), Timestamp: rgen.U64(c16FeedTs)},
			Entity: []*gtfsrt.FeedEntity{{Id: rgen.S("x"), TripUpdate: tu}}}
		rt, err := gtfs.ParseRealtime(rgen.Marshal(m), &gtfs.ParseRealtimeOptions{Extension: nycttrips.Extension(opts)})
		c.Eval(1)
		sig := fmt.Sprintf("assigned=%s dir=%s tracks=%s first=%s id=%s wire-vehicle=%s", cell.assigned, cell.dir, cell.tracks, cell.first, cell.id, pre)
		c.Shape(fmt.Sprintf("assigned=%s dir=%s tracks=%s first=%s id=%s opts=%d", cell.assigned, cell.dir, cell.tracks, cell.first, cell.id, oi))
		c.Feature("table:first=" + cell.first)
		c.Feature("table:assigned=" + cell.assigned + ",wire-vehicle=" + pre)
		detail := func() any {
			return map[string]any{"cell": sig, "options": fmt.Sprintf("%+v", opts), "message": prototextOf(m)}
		}
		if err != nil {
			c.Violationf("C16|parse-error", detail(), "ParseRealtime rejected the feed: %v", err)
			continue
		}
		wantDropped := opts.FilterStaleUnassignedTrips && cell.assigned != "true" && c16Stale(cell.first)
		c.Cmp(1)
		if wantDropped {
			if len(rt.Trips) != 0 {
				c.Violationf("C16|stale-trip-kept|first="+cell.first, detail(), "stale unassigned trip was kept (%s)", sig)
			}
			continue
		}
		if len(rt.Trips) != 1 {
			c.Violationf("C16|trip-dropped|first="+cell.first+"|assigned="+cell.assigned+fmt.Sprintf("|filter=%v", opts.FilterStaleUnassignedTrips), detail(), "trip was dropped although it is assigned, filtering is off, or its first stop is not in the past (%s)", sig)
			continue
		}
		t := &rt.Trips[0]
		c.Cmp(4)
		switch cell.dir {
		case "NORTH":
			if t.ID.DirectionID != gtfs.DirectionID_False {
				c.Violationf("C16|direction|NORTH", detail(), "NORTH gives %v", t.ID.DirectionID)
			}
		case "SOUTH":
			if t.ID.DirectionID != gtfs.DirectionID_True {
				c.Violationf("C16|direction|SOUTH", detail(), "SOUTH gives %v", t.ID.DirectionID)
			}
		default:
			c.Skip("direction-other-than-north-south-not-asserted")
		}
		if !t.ID.HasStartTime || t.ID.StartTime != wantStart {
			c.Violationf("C16|start-time|"+cell.id, detail(), "start time %v (has=%v), want %v", t.ID.StartTime, t.ID.HasStartTime, wantStart)
		}
		if cell.assigned == "true" {
			if t.Vehicle == nil || t.Vehicle.ID == nil || t.Vehicle.ID.ID != train {
				c.Violationf("C16|assigned-vehicle", detail(), "assigned trip is not linked to a vehicle whose id is the train id")
			} else if len(rt.Vehicles) != 1 || rt.Vehicles[0].Trip == nil || rt.Vehicles[0].Trip.ID.ID != id {
				c.Violationf("C16|assigned-vehicle-backlink", detail(), "the train's vehicle does not link back to the trip")
			}
		} else if t.Vehicle != nil && pre == "none" {
			c.Violationf("C16|unassigned-trip-has-vehicle", detail(), "an unassigned trip without a vehicle descriptor on the wire got a vehicle")
		}
		for k := range t.StopTimeUpdates {
			want := c16ExpectTrack(cell.tracks, k)
			got := t.StopTimeUpdates[k].NyctTrack
			c.Cmp(1)
			if (want == nil) != (got == nil) || (want != nil && *want != *got) {
				c.Violationf("C16|track|"+cell.tracks, detail(), "stop %d: track %v, want %v", k, strOrNil(got), strOrNil(want))
			}
		}
		if i%97 == 0 && oi == 1 && c.WantSample() {
			c.Sample(map[string]any{"kind": "rule-table", "cell": sig, "options": fmt.Sprintf("%+v", opts), "message": prototextOf(m)})
		}
	}
}

// c16NoTimestamp: the same rule with a header that carries no timestamp (or an explicit 0): the feed time is then 0, a missing
// first-stop time is still missing, and only negative times are earlier than it.
func c16NoTimestamp(c *core.Ctx, cell c16Cell) {
	var staleAt0 bool
	switch cell.first {
	case "no-stops", "no-times", "dep-delay-only+no-arr", "dep-negative", "arr-only-negative", "dep-min-int64":
		staleAt0 = true
	case "dep>", "arr-only>", "dep=", "dep<", "dep=1", "dep-max-int64":
		staleAt0 = false
	default:
		return
	}
	if cell.id != "nyct-format" {
		return
	}
	for _, explicitZero := range []bool{false, true} {
		for _, opts := range c16OptCombos {
			d := &gtfsrt.TripDescriptor{TripId: rgen.S("060350_A..N55R"), RouteId: rgen.S("A"), StartDate: rgen.S("20231114")}
			c16SetNyct(d, cell.assigned, cell.dir, "TRAIN 7")
			tu := &gtfsrt.TripUpdate{Trip: d, StopTimeUpdate: c16Stops(cell.first, cell.tracks, c.R)}
			hdr := &gtfsrt.FeedHeader{GtfsRealtimeVersion: rgen.S("1.0")}
			if explicitZero {
				hdr.Timestamp = rgen.U64(0)
			}
			m := &gtfsrt.FeedMessage{Header: hdr, Entity: []*gtfsrt.FeedEntity{{Id: rgen.S("x"), TripUpdate: tu}}}
			rt, err := gtfs.ParseRealtime(rgen.Marshal(m), &gtfs.ParseRealtimeOptions{Extension: nycttrips.Extension(opts)})
			c.Eval(1)
			c.Cmp(1)
			c.Feature("table:header-without-timestamp")
			if err != nil {
				continue
			}
			wantDropped := opts.FilterStaleUnassignedTrips && cell.assigned != "true" && staleAt0
			if wantDropped != (len(rt.Trips) == 0) {
				c.Violationf(fmt.Sprintf("C16|stale-rule-without-feed-timestamp|dropped=%v|first=%s", len(rt.Trips) == 0, cell.first), map[string]any{"options": fmt.Sprintf("%+v", opts), "message": prototextOf(m)},
					"header without timestamp (explicit zero: %v), assigned=%s, first=%s: dropped=%v, want %v", explicitZero, cell.assigned, cell.first, len(rt.Trips) == 0, wantDropped)
			}
		}
	}
}

func strOrNil(s *string) string {
	if s == nil {
		return "<nil>"
	}
	return *s
}

func c16VehiclePositions(c *core.Ctx) {
	r := c.R
	for k := 0; k < 20; k++ {
		n := r.Intn(600000)
		id := fmt.Sprintf("%06d_A..%s", n, core.Pick(r, []string{"N", "S"}))
		assigned := core.Pick(r, c16Assigned)
		dir := core.Pick(r, c16Dirs)
		d := &gtfsrt.TripDescriptor{TripId: rgen.S(id), RouteId: rgen.S("A"), StartDate: rgen.S("20231114")}
		train := core.Pick(r, c16TrainIDs)
		c16SetNyct(d, assigned, dir, train)
		pre := core.Pick(r, c16PreVehicles)
		vp := &gtfsrt.VehiclePosition{Trip: d, StopId: rgen.S("A20N"), Timestamp: rgen.U64(c16FeedTs), Vehicle: c16PreVehicle(pre, train, "car-77")}
		m := &gtfsrt.FeedMessage{Header: &gtfsrt.FeedHeader{GtfsRealtimeVersion: rgen.S("1.0"), Timestamp: rgen.U64(c16FeedTs)},
			Entity: []*gtfsrt.FeedEntity{{Id: rgen.S("v"), Vehicle: vp}}}
		opts := core.Pick(r, c16OptCombos)
		rt, err := gtfs.ParseRealtime(rgen.Marshal(m), &gtfs.ParseRealtimeOptions{Extension: nycttrips.Extension(opts)})
		c.Eval(1)
		c.Shape(fmt.Sprintf("vp assigned=%s dir=%s wire-vehicle=%s", assigned, dir, pre))
		detail := func() any {
			return map[string]any{"message": prototextOf(m), "options": fmt.Sprintf("%+v", opts), "wire_vehicle": pre}
		}
		if err != nil || len(rt.Trips) != 1 || len(rt.Vehicles) != 1 {
			c.Violationf("C16|vp-trip-or-vehicle-missing", detail(), "vehicle position with NYCT descriptor: want 1 trip and 1 vehicle (err=%v)", err)
			continue
		}
		t := &rt.Trips[0]
		c.Cmp(3)
		if !t.ID.HasStartTime || t.ID.StartTime != originSeconds(n) {
			c.Violationf("C16|vp-origin-time", detail(), "start time %v, want %v", t.ID.StartTime, originSeconds(n))
		}
		if dir == "NORTH" && t.ID.DirectionID != gtfs.DirectionID_False || dir == "SOUTH" && t.ID.DirectionID != gtfs.DirectionID_True {
			c.Violationf("C16|vp-direction", detail(), "%s gives %v", dir, t.ID.DirectionID)
		}
		if assigned == "true" {
			if rt.Vehicles[0].ID == nil || rt.Vehicles[0].ID.ID != train || t.Vehicle == nil || t.Vehicle.ID == nil || t.Vehicle.ID.ID != train {
				c.Violationf("C16|vp-assigned-vehicle", detail(), "assigned trip of a vehicle position is not linked to the train")
			}
		}
	}
}

var c16Buggy = map[string]bool{"M11": true, "M12": true, "M13": true, "M14": true, "M16": true, "M18": true}

// c16SwapM applies the documented swap to a parsed result (our own statement-level model).
func c16SwapM(rt *gtfs.Realtime) int {
	n := 0
	for i := range rt.Trips {
		if rt.Trips[i].ID.RouteID != "M" {
			continue
		}
		for k := range rt.Trips[i].StopTimeUpdates {
			p := rt.Trips[i].StopTimeUpdates[k].StopID
			if p == nil || len(*p) != 4 || !c16Buggy[(*p)[:3]] {
				continue
			}
			switch (*p)[3] {
			case 'N':
				s := (*p)[:3] + "S"
				rt.Trips[i].StopTimeUpdates[k].StopID = &s
				n++
			case 'S':
				s := (*p)[:3] + "N"
				rt.Trips[i].StopTimeUpdates[k].StopID = &s
				n++
			}
		}
	}
	return n
}

var c16MixedOpts = &canon.Options{SortPaths: map[string]bool{"->.Vehicles": true}}

var c16MStops = []string{"M10N", "M11N", "M11S", "M12S", "M13N", "M14S", "M15N", "M16N", "M16S", "M17S", "M18N", "M18S", "M19S", "M11", "M11NN", "A11N", "m11n", "M1 N", "", "M11X", "M18 "}

func c16Mixed(c *core.Ctx) {
	r := c.R
	f := rgen.GenFeed(r, rgen.Opts{MaxTrips: 4, MaxVehs: 3, MaxAlerts: 1, MaxIDLess: 1, PassThroughSelectorsOnly: true})
	// plain entities: put some trips on route M over the Bushwick stops
	onM := 0
	oddStop := false
	for _, e := range f.Msg.Entity {
		if tu := e.TripUpdate; tu != nil && r.Chance(2, 3) {
			onM++
			for _, u := range tu.StopTimeUpdate {
				if r.Chance(4, 5) {
					s := core.Pick(r, c16MStops)
					if s == "M11X" || s == "M18 " {
						oddStop = true
					}
					u.StopId = rgen.S(s)
				}
			}
		}
	}
	// every mention of a trip must keep one descriptor: set route M on whole trips
	for ti := range f.Trips {
		if r.Chance(2, 3) {
			want := rgen.S("M")
			if r.Chance(1, 5) {
				want = rgen.S("m")
			}
			old := f.Trips[ti].Key
			for _, e := range f.Msg.Entity {
				for _, d := range descriptorsOf(e) {
					if rgen.DescKey(d) == old {
						d.RouteId = want
					}
				}
			}
			f.Trips[ti].Desc.RouteId = want
			f.Trips[ti].Key = rgen.DescKey(f.Trips[ti].Desc)
		}
	}
	// re-check conflict-freedom after the route rewrite (two trips may have collapsed)
	seen := map[string]bool{}
	for _, t := range f.Trips {
		if seen[t.Key] {
			c.Skip("route-rewrite-collapsed-two-trips")
			return
		}
		seen[t.Key] = true
	}
	plain := &gtfsrt.FeedMessage{Header: f.Msg.Header, Entity: f.Msg.Entity}
	plain.Header.Timestamp = rgen.U64(c16FeedTs) // the first-stop relations are relative to this instant
	// NYCT-extended entities with a universe of their own
	mixed := &gtfsrt.FeedMessage{Header: plain.Header}
	mixed.Entity = append(mixed.Entity, plain.Entity...)
	nN := 1 + r.Intn(3)
	type nexp struct {
		id     string
		cell   c16Cell
		origin int
		route  string
		train  string
	}
	var nyct []nexp
	for k := 0; k < nN; k++ {
		cell := c16Cell{assigned: core.Pick(r, c16Assigned), dir: core.Pick(r, c16Dirs), tracks: core.Pick(r, c16Tracks), first: core.Pick(r, c16First), id: "nyct-format"}
		n := r.Intn(600000)
		route := core.Pick(r, []string{"M", "A", "6"})
		id := fmt.Sprintf("%06d_%s..%s%02d", n, route, core.Pick(r, []string{"N", "S"}), k)
		d := &gtfsrt.TripDescriptor{TripId: rgen.S(id), RouteId: rgen.S(route), StartDate: rgen.S("20231114")}
		train := fmt.Sprintf("TRAIN-%d", k) + core.Pick(r, []string{"", "", " ", "\t", " x"})
		c16SetNyct(d, cell.assigned, cell.dir, train)
		tu := &gtfsrt.TripUpdate{Trip: d, StopTimeUpdate: c16Stops(cell.first, cell.tracks, r)}
		if cell.assigned == "true" {
			// an assigned trip may already carry a vehicle descriptor on the wire; the train id replaces its id
			tu.Vehicle = c16PreVehicle(core.Pick(r, c16PreVehicles), train, fmt.Sprintf("nyct-wire-car-%d", k))
		}
		pos := r.Intn(len(mixed.Entity) + 1)
		mixed.Entity = append(mixed.Entity, nil)
		copy(mixed.Entity[pos+1:], mixed.Entity[pos:])
		mixed.Entity[pos] = &gtfsrt.FeedEntity{Id: rgen.S(fmt.Sprintf("nyct-%d", k)), TripUpdate: tu}
		nyct = append(nyct, nexp{id: id, cell: cell, origin: n, route: route, train: train})
	}
	plainBytes := rgen.Marshal(plain)
	mixedBytes := rgen.Marshal(mixed)
	// the differential must hold under every timezone option: both sides are parsed with the same one
	zo := c02Zones[r.Intn(len(c02Zones))]
	c.Feature("zone:" + zo.name)
	base, err := gtfs.ParseRealtime(plainBytes, &gtfs.ParseRealtimeOptions{Timezone: zo.loc})
	c.Eval(1)
	if err != nil {
		c.Violationf("C16|parse-error", map[string]any{"error": err.Error()}, "ParseRealtime rejected the plain feed: %v", err)
		return
	}
	c.Shape(fmt.Sprintf("mixed %s onM=%d nyct=%d", feedShape(f), onM, nN))
	if oddStop {
		c.Feature("route-M-stop-with-non-N/S-suffix")
	}
	baseDump := canon.Dump(base, c16MixedOpts)
	for oi, opts := range c16OptCombos {
		ext := func() *gtfs.ParseRealtimeOptions {
			return &gtfs.ParseRealtimeOptions{Timezone: zo.loc, Extension: nycttrips.Extension(opts)}
		}
		detail := func() any {
			return map[string]any{"options": fmt.Sprintf("%+v", opts), "zone": zo.name, "plain_message": prototextOf(plain)}
		}
		// (i) plain-only feed: extension == swapM(no extension)
		want, _ := gtfs.ParseRealtime(plainBytes, &gtfs.ParseRealtimeOptions{Timezone: zo.loc})
		swapped := 0
		if !opts.PreserveMTrainPlatformsInBushwick {
			swapped = c16SwapM(want)
		}
		c.Observe("m_train_platform_swaps_expected", swapped)
		got, err := gtfs.ParseRealtime(plainBytes, ext())
		c.Eval(2)
		if err != nil {
			c.Violationf("C16|parse-error", detail(), "ParseRealtime with the extension rejected the plain feed: %v", err)
			continue
		}
		wantDump := canon.Dump(want, c16MixedOpts)
		c.Cmp(1)
		if path, desc, differ := diffPath(wantDump, canon.Dump(got, c16MixedOpts)); differ {
			kind := "C16|plain-entity-differs|"
			if opts.PreserveMTrainPlatformsInBushwick {
				kind = "C16|plain-entity-differs-with-swap-disabled|"
			}
			c.Violationf(kind+path, detail(), "an entity without NYCT data parses differently with the extension (beyond the documented M-train swap): %s", desc)
		}
		// swap is its own inverse: swapping the expectation twice gives the no-extension parse
		if !opts.PreserveMTrainPlatformsInBushwick {
			c16SwapM(want)
			c.Cmp(1)
			if canon.Dump(want, c16MixedOpts) != baseDump {
				c.Violation("C16|harness-swap-not-involutive", "harness swap model is not an involution", nil)
			}
			// run the extension on the re-encoded swapped feed
			re := proto.Clone(plain).(*gtfsrt.FeedMessage)
			ok := true
			unasserted := 0
			for _, e := range re.Entity {
				if tu := e.TripUpdate; tu != nil {
					wantID := rgen.TripIDOf(tu.Trip, zoneOr(zo.loc), &unasserted)
					var t *gtfs.Trip
					for i := range got.Trips {
						if tripIDEq(got.Trips[i].ID, wantID) {
							t = &got.Trips[i]
						}
					}
					if t == nil || len(t.StopTimeUpdates) != len(tu.StopTimeUpdate) {
						ok = false
						continue
					}
					for k, u := range tu.StopTimeUpdate {
						u.StopId = t.StopTimeUpdates[k].StopID
					}
				}
			}
			if ok {
				twice, err := gtfs.ParseRealtime(rgen.Marshal(re), ext())
				c.Eval(1)
				c.Cmp(1)
				if err == nil {
					if path, desc, differ := diffPath(baseDump, canon.Dump(twice, c16MixedOpts)); differ {
						c.Violationf("C16|swap-not-its-own-inverse|"+path, detail(), "applying the extension to the already swapped feed does not return the original: %s", desc)
					}
				}
			} else {
				c.Skip("re-encode-ambiguous-trip-key")
			}
		}
		// (ii) mixed feed: plain part unaffected by the NYCT entities, NYCT trips follow the rules
		mg, err := gtfs.ParseRealtime(mixedBytes, ext())
		c.Eval(1)
		if err != nil {
			c.Violationf("C16|parse-error", detail(), "ParseRealtime with the extension rejected the mixed feed: %v", err)
			continue
		}
		filtered := &gtfs.Realtime{CreatedAt: mg.CreatedAt, Alerts: mg.Alerts}
		nyctTrips := map[string]*gtfs.Trip{}
		for i := range mg.Trips {
			if c16NyctID.MatchString(mg.Trips[i].ID.ID) {
				nyctTrips[mg.Trips[i].ID.ID] = &mg.Trips[i]
			} else {
				filtered.Trips = append(filtered.Trips, mg.Trips[i])
			}
		}
		for i := range mg.Vehicles {
			if mg.Vehicles[i].ID != nil && len(mg.Vehicles[i].ID.ID) > 6 && mg.Vehicles[i].ID.ID[:6] == "TRAIN-" {
				continue
			}
			filtered.Vehicles = append(filtered.Vehicles, mg.Vehicles[i])
		}
		want2, _ := gtfs.ParseRealtime(plainBytes, &gtfs.ParseRealtimeOptions{Timezone: zo.loc})
		if !opts.PreserveMTrainPlatformsInBushwick {
			c16SwapM(want2)
		}
		c.Cmp(1)
		if path, desc, differ := diffPath(canon.Dump(want2, c16MixedOpts), canon.Dump(filtered, c16MixedOpts)); differ {
			c.Violationf("C16|plain-entity-differs-in-mixed-feed|"+path, map[string]any{"options": fmt.Sprintf("%+v", opts), "mixed_message": prototextOf(mixed)},
				"in a mixed feed an entity without NYCT data parses differently than alone without extension: %s", desc)
		}
		for _, ne := range nyct {
			t := nyctTrips[ne.id]
			stale := ne.cell.assigned != "true" && c16Stale(ne.cell.first)
			wantDropped := opts.FilterStaleUnassignedTrips && stale
			md := func() any {
				return map[string]any{"options": fmt.Sprintf("%+v", opts), "nyct_trip": ne.id, "cell": fmt.Sprintf("%+v", ne.cell), "mixed_message": prototextOf(mixed)}
			}
			c.Cmp(1)
			if wantDropped != (t == nil) {
				c.Violationf(fmt.Sprintf("C16|mixed-stale-rule|dropped=%v|first=%s", t == nil, ne.cell.first), md(), "NYCT trip %s: dropped=%v, want %v", ne.id, t == nil, wantDropped)
				continue
			}
			if t == nil {
				continue
			}
			c.Cmp(3)
			if !t.ID.HasStartTime || t.ID.StartTime != originSeconds(ne.origin) {
				c.Violationf("C16|mixed-origin-time", md(), "NYCT trip %s: start time %v, want %v", ne.id, t.ID.StartTime, originSeconds(ne.origin))
			}
			if ne.cell.dir == "NORTH" && t.ID.DirectionID != gtfs.DirectionID_False || ne.cell.dir == "SOUTH" && t.ID.DirectionID != gtfs.DirectionID_True {
				c.Violationf("C16|mixed-direction", md(), "NYCT trip %s: %s gives %v", ne.id, ne.cell.dir, t.ID.DirectionID)
			}
			if ne.cell.assigned == "true" && (t.Vehicle == nil || t.Vehicle.ID == nil || t.Vehicle.ID.ID != ne.train) {
				c.Violationf("C16|mixed-assigned-vehicle", md(), "NYCT trip %s is assigned but not linked to its train", ne.id)
			}
			for k := range t.StopTimeUpdates {
				want := c16ExpectTrack(ne.cell.tracks, k)
				got := t.StopTimeUpdates[k].NyctTrack
				c.Cmp(1)
				if (want == nil) != (got == nil) || (want != nil && *want != *got) {
					c.Violationf("C16|mixed-track|"+ne.cell.tracks, md(), "NYCT trip %s stop %d: track %v, want %v", ne.id, k, strOrNil(got), strOrNil(want))
				}
			}
		}
		if oi == 0 && swapped > 0 && c.WantSample() {
			c.Sample(map[string]any{"kind": "mixed-feed", "swaps": swapped, "mixed_message": prototextOf(mixed)})
		}
	}
}

func descriptorsOf(e *gtfsrt.FeedEntity) []*gtfsrt.TripDescriptor {
	var out []*gtfsrt.TripDescriptor
	if e.TripUpdate != nil && e.TripUpdate.Trip != nil {
		out = append(out, e.TripUpdate.Trip)
	}
	if e.Vehicle != nil && e.Vehicle.Trip != nil {
		out = append(out, e.Vehicle.Trip)
	}
	if e.Alert != nil {
		for _, s := range e.Alert.InformedEntity {
			if s.Trip != nil {
				out = append(out, s.Trip)
			}
		}
	}
	return out
}

func zoneOr(l *time.Location) *time.Location {
	if l == nil {
		return time.UTC
	}
	return l
}
