package mon

import (
	"fmt"

	"github.com/jamespfennell/gtfs"

	"verifharness/canon"
	"verifharness/core"
	"verifharness/sgen"
)

func c08Counts(tier string) (bulk, large int) {
	if tier == "thorough" {
		return 3000, 24 + 2*len(c08Sizes(tier)) + 2*len(c08GroupCounts(tier))
	}
	return 260, 4 + 2*len(c08Sizes(tier)) + 2*len(c08GroupCounts(tier))
}

// c08GroupCounts: number of shapes / of trips (each with a few rows, rows of different groups interleaved), swept over
// the threshold list.
func c08GroupCounts(tier string) []int {
	max := 1100
	if tier == "thorough" {
		max = 4200
	}
	var out []int
	for _, n := range core.Thresholds(max) {
		if n >= 60 {
			out = append(out, n)
		}
	}
	return out
}

// c08Sizes: number of points of one shape / stop times of one trip, swept over the threshold list.
func c08Sizes(tier string) []int {
	var out []int
	for _, n := range core.Thresholds(70000) {
		if n >= 100 && (tier == "thorough" || n <= 4200 || n >= 65535) {
			out = append(out, n)
		}
	}
	return out
}

func init() {
	core.Register(&core.Property{
		ID:    "C08",
		Level: "exploration",
		Rule: "each case draws a well-formed feed with 2-30 trips x 0-60 stop times and 0-10 shapes x 1-200 points (sequence numbers with gaps and string-vs-number order traps) and parses it under every row order of stop_times.txt and shapes.txt in {as generated, grouped, round-robin across trips, shuffled, reversed, split blocks, sorted, reverse-sorted}; some cases are 50k-row interleavings; " +
			"distinct_nontrivial counts distinct (row-count vector, zone) signatures of models that have at least two trips with two or more stop times",
		Cases: func(tier string) int { b, l := c08Counts(tier); return b + l },
		Run:   runC08,
		Assumptions: []string{
			"expected order comes from the reference transcription: file order for every collection, ascending sequence inside a trip/shape, shapes ascending by id (byte order)",
			"Static.Services is compared order-normalised here (its order is C06's subject)",
		},
	})
}

func runC08(c *core.Ctx) {
	_, nLarge := c08Counts(c.Tier)
	sz := sgen.Size{Agencies: 2, Routes: 4, Stops: 12, Transfers: 5, Calendars: 3, CalDates: 5, Shapes: 10, ShapePtsPer: 40, Trips: 30, Freqs: 6, StopTimesPer: 60}
	if c.R.Chance(1, 4) {
		sz.ShapePtsPer = 200
	}
	if c.R.Chance(1, 2) {
		sz.Trips, sz.StopTimesPer = 6, 12
	}
	orders := sgen.RowOrders
	if sizes := c08Sizes(c.Tier); c.Index < 2*len(sizes) {
		n := sizes[c.Index/2]
		sz = sgen.Size{Agencies: 1, Routes: 1, Stops: 5, Transfers: 0, Calendars: 1, CalDates: 0, Shapes: 2, ShapePtsPer: 3, Trips: 2, Freqs: 0, StopTimesPer: 3, Exact: true}
		if c.Index%2 == 0 {
			sz.ShapePtsPer = n
		} else {
			sz.StopTimesPer = n
		}
		orders = []string{"as-generated", "shuffled", "round-robin"}
		c.Feature("size-sweep")
	} else if k := c.Index - 2*len(c08Sizes(c.Tier)); k < 2*len(c08GroupCounts(c.Tier)) {
		n := c08GroupCounts(c.Tier)[k/2]
		sz = sgen.Size{Agencies: 1, Routes: 1, Stops: 5, Transfers: 0, Calendars: 1, CalDates: 0, Shapes: 3, ShapePtsPer: 3, Trips: 3, Freqs: 0, StopTimesPer: 3, Exact: true}
		if k%2 == 0 {
			sz.Shapes = n
		} else {
			sz.Trips = n
		}
		orders = []string{"as-generated", "round-robin", "shuffled"}
		c.Feature("group-count-sweep")
	} else if c.Index < nLarge {
		sz = sgen.Size{Agencies: 1, Routes: 5, Stops: 200, Transfers: 5, Calendars: 3, CalDates: 5, Shapes: 20, ShapePtsPer: 500, Trips: 500, Freqs: 5, StopTimesPer: 100, Exact: true}
		orders = []string{"as-generated", "round-robin", "shuffled", "reversed"}
		c.Feature("large-interleaving")
	}
	m := sgen.Gen(c.R, sz)
	multi := 0
	perTrip := map[int]int{}
	for _, st := range m.StopTimes {
		perTrip[st.Trip]++
	}
	for _, n := range perTrip {
		if n >= 2 {
			multi++
		}
	}
	if multi >= 2 {
		c.Shape(m.ShapeSig())
	}
	ref := sgen.Ref(m, false)
	ref.Neutralize(ref.Static, m)
	want := canon.DumpStaticMode(ref.Static, true, false, false)
	var first string
	for k, order := range orders {
		mm := sgen.Reorder(m, order, c.R.Fork())
		b := sgen.Encode(sgen.Tables(mm), &sgen.Presentation{Plain: true})
		got, err := gtfs.ParseStatic(b, gtfs.ParseStaticOptions{})
		c.Eval(1)
		c.Feature("row-order:" + order)
		if err != nil {
			c.Violationf("C08|parse-error", map[string]any{"error": err.Error()}, "ParseStatic rejected a well-formed feed: %v", err)
			continue
		}
		// direct invariants
		for ti := range got.Trips {
			sts := got.Trips[ti].StopTimes
			for i := 1; i < len(sts); i++ {
				c.Cmp(1)
				if sts[i-1].StopSequence >= sts[i].StopSequence {
					c.Violationf("C08|stop-times-not-ascending", map[string]any{"trip": got.Trips[ti].ID, "row_order": order, "sequences": seqsOf(sts)},
						"stop times of trip %q are not in ascending stop_sequence (row order %s): %v", got.Trips[ti].ID, order, core.Trunc(fmt.Sprint(seqsOf(sts)), 200))
					break
				}
			}
		}
		for i := 1; i < len(got.Shapes); i++ {
			c.Cmp(1)
			if got.Shapes[i-1].ID >= got.Shapes[i].ID {
				c.Violationf("C08|shapes-not-ascending-by-id", map[string]any{"row_order": order}, "shapes are not ordered by id: %q before %q", got.Shapes[i-1].ID, got.Shapes[i].ID)
				break
			}
		}
		raw := canon.DumpStaticMode(got, true, false, false)
		c.Cmp(1)
		if k == 0 {
			first = raw
		} else if path, desc, differ := diffPath(first, raw); differ {
			c.Violationf("C08|row-order-dependent|"+path, map[string]any{"row_order": order, "diff": desc},
				"result changes when the rows of stop_times.txt/shapes.txt are permuted (%s vs %s): %s", orders[0], order, desc)
		}
		ref.Neutralize(got, m)
		have := canon.DumpStaticMode(got, true, false, false)
		c.Cmp(1)
		if path, desc, differ := diffPath(want, have); differ {
			c.Violationf("C08|order-mismatch|"+path, map[string]any{"row_order": order, "diff_expected_vs_parsed": desc},
				"collection order differs from the expected order (row order %s): %s", order, desc)
		}
		if k == 1 && c.WantSample() {
			c.Sample(map[string]any{"model_shape": m.ShapeSig(), "row_order": order, "tables": sampleTables(sgen.Tables(mm), 4)})
		}
	}
}

func seqsOf(sts []gtfs.ScheduledStopTime) []int {
	out := make([]int, len(sts))
	for i := range sts {
		out[i] = sts[i].StopSequence
	}
	return out
}
