package mon

import (
	"fmt"
	"time"

	"github.com/jamespfennell/gtfs"
	gtfsrt "github.com/jamespfennell/gtfs/proto"

	"verifharness/canon"
	"verifharness/core"
	"verifharness/rgen"
)

// One trip/vehicle pair of the enumerated space.
type c04Pair struct {
	ident int // 0 id, 1 label only, 2 plate only, 3 no descriptor, 4 id+label
	expr  int // see c04Exprs
}

var c04Idents = []string{"id", "label-only", "plate-only", "no-descriptor", "id+label"}

// Ways to express (or not) the association of a trip and a vehicle.
var c04Exprs = []string{
	"none(TU,VP unrelated)", // trip update without vehicle, vehicle position without trip
	"TUv",                   // trip update with vehicle descriptor, no vehicle position
	"TUv+VP",                // trip update with vehicle descriptor, vehicle position without trip
	"VPt",                   // vehicle position with trip descriptor, no trip update
	"VPt+TU",                // vehicle position with trip descriptor, trip update without vehicle
	"TUv+VPt",               // both
}

func c04Valid(p c04Pair) bool {
	if p.ident == 3 {
		// a vehicle without descriptor cannot be named from a trip update
		return p.expr == 0 || p.expr == 3 || p.expr == 4
	}
	return true
}

var c04AllPairs = func() []c04Pair {
	var out []c04Pair
	for id := 0; id < 5; id++ {
		for e := 0; e < 6; e++ {
			p := c04Pair{id, e}
			if c04Valid(p) {
				out = append(out, p)
			}
		}
	}
	return out
}()

func c04Counts(tier string) (enum1, enum2, enum3, random int) {
	n := len(c04AllPairs)
	if tier == "thorough" {
		return n, n * n, n * n * n, 600000 + len(rtSizeCases(tier))
	}
	return n, n * n, 0, 8000 + len(rtSizeCases(tier))
}

func init() {
	core.Register(&core.Property{
		ID:    "C04",
		Level: "exploration",
		Rule: "exhaustive small space: for 1, 2 (quick) and 3 (thorough) trip/vehicle pairs, every combination of how the association is expressed {not at all, trip update with vehicle descriptor (with/without an own vehicle position), vehicle position with trip descriptor (with/without an own trip update), both} x vehicle identity {id, label only, licence plate only, no descriptor}, under every permutation of the resulting entities (all n! up to 5 entities, 120 sampled above); plus random larger conflict-free feeds with bystander entities and alerts; " +
			"distinct_nontrivial counts distinct (combination, permutation) pairs parsed that contain at least one association",
		Cases: func(tier string) int { a, b, cc, d := c04Counts(tier); return a + b + cc + d },
		Run:   runC04,
		Assumptions: []string{
			"link targets are compared by content with the top-level entries (the statement does not demand pointer identity)",
			"id-less vehicles are recognised by the unique stop id the generator gives each vehicle position",
		},
	})
}

type c04Expect struct {
	tripID   string
	vehID    *gtfs.VehicleID
	vehStop  string // unique stop id of the vehicle position, if one exists
	hasVP    bool
	assoc    bool
	pair     c04Pair
	tripSeen bool // the trip is mentioned at all
	vehSeen  bool
}

func c04Build(pairs []c04Pair) ([]*gtfsrt.FeedEntity, []c04Expect) {
	var ents []*gtfsrt.FeedEntity
	var exp []c04Expect
	for i, p := range pairs {
		trip := &gtfsrt.TripDescriptor{TripId: rgen.S(fmt.Sprintf("T%d", i)), RouteId: rgen.S("R")}
		var vd *gtfsrt.VehicleDescriptor
		// Distinct vehicles deliberately share strings across fields: the same text as id of one
		// vehicle, label of another and plate of a third, and id+label splits of one digit string.
		same := "7001"
		for j := 0; j < i; j++ {
			if pairs[j].ident == p.ident {
				same += "x" // two vehicles of the same kind must still differ
			}
		}
		switch p.ident {
		case 0:
			vd = &gtfsrt.VehicleDescriptor{Id: rgen.S(same)}
		case 1:
			vd = &gtfsrt.VehicleDescriptor{Label: rgen.S(same)}
		case 2:
			vd = &gtfsrt.VehicleDescriptor{LicensePlate: rgen.S(same)}
		case 4:
			split := []([2]string){{"70", "01"}, {"7", "001"}, {"700", "1"}}[i%3]
			vd = &gtfsrt.VehicleDescriptor{Id: rgen.S(split[0]), Label: rgen.S(split[1])}
		}
		e := c04Expect{tripID: fmt.Sprintf("T%d", i), vehID: rgen.VehicleIDOf(vd), vehStop: fmt.Sprintf("at-%d", i), pair: p}
		clone := func() *gtfsrt.TripDescriptor {
			return &gtfsrt.TripDescriptor{TripId: rgen.S(*trip.TripId), RouteId: rgen.S("R")}
		}
		vclone := func() *gtfsrt.VehicleDescriptor {
			if vd == nil {
				return nil
			}
			return &gtfsrt.VehicleDescriptor{Id: vd.Id, Label: vd.Label, LicensePlate: vd.LicensePlate}
		}
		tu := func(withVeh bool) {
			t := &gtfsrt.TripUpdate{Trip: clone(), StopTimeUpdate: []*gtfsrt.TripUpdate_StopTimeUpdate{{StopId: rgen.S(fmt.Sprintf("stop-of-T%d", i)), Arrival: &gtfsrt.TripUpdate_StopTimeEvent{Time: rgen.I64(1700000000 + int64(i))}}}}
			if withVeh {
				t.Vehicle = vclone()
			}
			ents = append(ents, &gtfsrt.FeedEntity{TripUpdate: t})
			e.tripSeen = true
			if withVeh {
				e.vehSeen = true
			}
		}
		vp := func(withTrip bool) {
			v := &gtfsrt.VehiclePosition{Vehicle: vclone(), StopId: rgen.S(e.vehStop), Timestamp: rgen.U64(1700000100 + uint64(i)), Position: &gtfsrt.Position{Latitude: rgen.F32(float32(i)), Longitude: rgen.F32(1)}}
			if withTrip {
				v.Trip = clone()
				e.tripSeen = true
			}
			ents = append(ents, &gtfsrt.FeedEntity{Vehicle: v})
			e.hasVP = true
			e.vehSeen = true
		}
		switch p.expr {
		case 0:
			tu(false)
			vp(false)
		case 1:
			tu(true)
			e.assoc = true
		case 2:
			tu(true)
			vp(false)
			e.assoc = true
		case 3:
			vp(true)
			e.assoc = true
		case 4:
			vp(true)
			tu(false)
			e.assoc = true
		case 5:
			tu(true)
			vp(true)
			e.assoc = true
		}
		exp = append(exp, e)
	}
	for i, e := range ents {
		e.Id = rgen.S(fmt.Sprintf("e%d", i))
	}
	return ents, exp
}

var c04VehOpts = &canon.Options{}

// c04Check verifies the links of one parse result against the expectation table.
func c04Check(c *core.Ctx, rt *gtfs.Realtime, exp []c04Expect, desc func() any) {
	for _, e := range exp {
		kind := c04Idents[e.pair.ident] + "|" + c04Exprs[e.pair.expr]
		var trip *gtfs.Trip
		for i := range rt.Trips {
			if rt.Trips[i].ID.ID == e.tripID {
				trip = &rt.Trips[i]
			}
		}
		var veh *gtfs.Vehicle
		for j := range rt.Vehicles {
			v := &rt.Vehicles[j]
			if e.vehID != nil && v.ID != nil && *v.ID == *e.vehID {
				veh = v
			}
			if e.vehID == nil && v.ID == nil && v.StopID != nil && *v.StopID == e.vehStop {
				veh = v
			}
		}
		c.Cmp(2)
		if e.tripSeen && trip == nil {
			c.Violationf("C04|trip-missing|"+kind, desc(), "trip %s is not in Trips (%s)", e.tripID, kind)
			continue
		}
		if e.vehSeen && veh == nil {
			c.Violationf("C04|vehicle-missing|"+kind, desc(), "the vehicle of pair %s is not in Vehicles (%s)", e.tripID, kind)
			continue
		}
		if !e.assoc {
			c.Cmp(2)
			if trip != nil && trip.Vehicle != nil {
				c.Violationf("C04|spurious-link|Trip.Vehicle|"+kind, desc(), "trip %s has a vehicle although the feed makes no association (%s)", e.tripID, kind)
			}
			if veh != nil && veh.Trip != nil {
				c.Violationf("C04|spurious-link|Vehicle.Trip|"+kind, desc(), "vehicle of pair %s has a trip although the feed makes no association (%s)", e.tripID, kind)
			}
			continue
		}
		c.Cmp(6)
		if trip.Vehicle == nil {
			c.Violationf("C04|missing-link|Trip.Vehicle|"+kind, desc(), "trip %s is associated with a vehicle in the feed but Trip.Vehicle is nil (%s)", e.tripID, kind)
		}
		if veh.Trip == nil {
			c.Violationf("C04|missing-link|Vehicle.Trip|"+kind, desc(), "the vehicle associated with trip %s has a nil Trip (%s)", e.tripID, kind)
		}
		if trip.Vehicle == nil || veh.Trip == nil {
			continue
		}
		if a, b := canon.Dump(trip.Vehicle, c04VehOpts), canon.Dump(veh, c04VehOpts); a != b {
			_, d, _ := diffPath(a, b)
			c.Violationf("C04|link-content|Trip.Vehicle|"+kind, desc(), "what Trip.Vehicle reaches differs from the top-level vehicle (%s): %s", kind, d)
		}
		if a, b := canon.Dump(veh.Trip, c04VehOpts), canon.Dump(trip, c04VehOpts); a != b {
			_, d, _ := diffPath(a, b)
			c.Violationf("C04|link-content|Vehicle.Trip|"+kind, desc(), "what Vehicle.Trip reaches differs from the top-level trip (%s): %s", kind, d)
		}
		if trip.Vehicle.Trip == nil || !tripIDEq(trip.Vehicle.Trip.ID, trip.ID) {
			c.Violationf("C04|not-mutual|Trip.Vehicle.Trip|"+kind, desc(), "Trip.Vehicle.Trip does not lead back to trip %s (%s)", e.tripID, kind)
		}
		back := veh.Trip.Vehicle
		if back == nil || (e.vehID != nil && (back.ID == nil || *back.ID != *e.vehID)) || (e.vehID == nil && (back.StopID == nil || *back.StopID != e.vehStop)) {
			c.Violationf("C04|not-mutual|Vehicle.Trip.Vehicle|"+kind, desc(), "Vehicle.Trip.Vehicle does not lead back to the vehicle (%s)", kind)
		}
	}
}

// permutations calls f with every permutation of 0..n-1 (n <= full) or with `sample` random ones.
func permutations(r *core.Rand, n int, full int, sample int, f func(p []int)) {
	if n <= full {
		p := make([]int, n)
		for i := range p {
			p[i] = i
		}
		var rec func(k int)
		rec = func(k int) {
			if k == n {
				f(p)
				return
			}
			for i := k; i < n; i++ {
				p[k], p[i] = p[i], p[k]
				rec(k + 1)
				p[k], p[i] = p[i], p[k]
			}
		}
		rec(0)
		return
	}
	for i := 0; i < sample; i++ {
		f(r.Perm(n))
	}
}

func runC04(c *core.Ctx) {
	if c.Index%61 == 17 {
		skipInterplay(c, "C04")
	}
	n1, n2, n3, _ := c04Counts(c.Tier)
	np := len(c04AllPairs)
	var pairs []c04Pair
	i := c.Index
	switch {
	case i < n1:
		pairs = []c04Pair{c04AllPairs[i]}
	case i < n1+n2:
		j := i - n1
		pairs = []c04Pair{c04AllPairs[j/np], c04AllPairs[j%np]}
	case i < n1+n2+n3:
		j := i - n1 - n2
		pairs = []c04Pair{c04AllPairs[j/(np*np)], c04AllPairs[(j/np)%np], c04AllPairs[j%np]}
	default:
		c04Random(c, i-n1-n2-n3)
		return
	}
	ents, exp := c04Build(pairs)
	anyAssoc := false
	sig := ""
	for _, p := range pairs {
		sig += fmt.Sprintf("%s/%s;", c04Idents[p.ident], c04Exprs[p.expr])
		if p.expr != 0 {
			anyAssoc = true
		}
		c.Feature("identity:" + c04Idents[p.ident])
		c.Feature("expression:" + c04Exprs[p.expr])
	}
	c.Feature(fmt.Sprintf("enumerated-pairs:%d", len(pairs)))
	hdr := &gtfsrt.FeedHeader{GtfsRealtimeVersion: rgen.S("2.0"), Timestamp: rgen.U64(1700000000)}
	permutations(c.R, len(ents), 5, 120, func(p []int) {
		m := &gtfsrt.FeedMessage{Header: hdr}
		for _, j := range p {
			m.Entity = append(m.Entity, ents[j])
		}
		b := rgen.Marshal(m)
		rt, err := gtfs.ParseRealtime(b, &gtfs.ParseRealtimeOptions{})
		c.Eval(1)
		if anyAssoc {
			c.Shape(sig + fmt.Sprint(p))
		}
		if err != nil {
			c.Violationf("C04|parse-error", map[string]any{"error": err.Error()}, "ParseRealtime rejected a valid message: %v", err)
			return
		}
		c04Check(c, rt, exp, func() any {
			return map[string]any{"combination": sig, "entity_order": fmt.Sprint(p), "message": prototextOf(m)}
		})
		if c.WantSample() && len(pairs) == 2 && anyAssoc && p[0] != 0 {
			c.Sample(map[string]any{"combination": sig, "entity_order": fmt.Sprint(p), "message": prototextOf(m)})
		}
	})
}

// c04Random checks the links of a random conflict-free feed with bystanders.
func c04Random(c *core.Ctx, k int) {
	opts := rgen.Opts{MaxTrips: 6, MaxVehs: 5, MaxAlerts: 2, MaxIDLess: 3, PassThroughSelectorsOnly: true}
	if sc := rtSizeCases(c.Tier); k < len(sc) {
		opts = sc[k].opts
		c.Feature("size-sweep")
		c.Shape("size-sweep " + sc[k].name)
	}
	f := rgen.GenFeed(c.R, opts)
	b := rgen.Marshal(f.Msg)
	rt, err := gtfs.ParseRealtime(b, &gtfs.ParseRealtimeOptions{})
	c.Eval(1)
	c.Feature("random-feed")
	if err != nil {
		c.Violationf("C04|parse-error", map[string]any{"error": err.Error()}, "ParseRealtime rejected a valid message: %v", err)
		return
	}
	if len(f.Assoc) > 0 {
		c.Shape("random:" + feedShape(f))
	}
	detail := func() any { return map[string]any{"message": prototextOf(f.Msg)} }
	z := time.UTC
	unasserted := 0
	// expected association table by descriptor
	tripOf := func(ti int) *gtfs.Trip {
		id := rgen.TripIDOf(f.Trips[ti].Desc, z, &unasserted)
		for i := range rt.Trips {
			if tripIDEq(rt.Trips[i].ID, id) {
				return &rt.Trips[i]
			}
		}
		return nil
	}
	mentioned := map[int]bool{}
	for _, e := range f.Msg.Entity {
		var d *gtfsrt.TripDescriptor
		if e.TripUpdate != nil {
			d = e.TripUpdate.Trip
		} else if e.Vehicle != nil {
			d = e.Vehicle.Trip
		}
		if d != nil {
			for ti := range f.Trips {
				if f.Trips[ti].Key == rgen.DescKey(d) {
					mentioned[ti] = true
				}
			}
		}
	}
	for ti := range f.Trips {
		if !mentioned[ti] {
			continue
		}
		trip := tripOf(ti)
		c.Cmp(1)
		if trip == nil {
			c.Violationf("C04|trip-missing|random", detail(), "trip %s is not in Trips", f.Trips[ti].Key)
			continue
		}
		v, assoc := f.Assoc[ti]
		switch {
		case !assoc:
			c.Cmp(1)
			if trip.Vehicle != nil {
				c.Violationf("C04|spurious-link|Trip.Vehicle|random", detail(), "trip %s has a vehicle although the feed makes no association", f.Trips[ti].Key)
			}
		case v >= 0:
			want := rgen.VehicleIDOf(f.Vehs[v].Desc)
			c.Cmp(3)
			if trip.Vehicle == nil || trip.Vehicle.ID == nil || *trip.Vehicle.ID != *want {
				c.Violationf("C04|missing-link|Trip.Vehicle|random-id-vehicle", detail(), "trip %s should link to vehicle %v", f.Trips[ti].Key, *want)
				continue
			}
			var top *gtfs.Vehicle
			for j := range rt.Vehicles {
				if rt.Vehicles[j].ID != nil && *rt.Vehicles[j].ID == *want {
					top = &rt.Vehicles[j]
				}
			}
			if top == nil || top.Trip == nil || !tripIDEq(top.Trip.ID, trip.ID) {
				c.Violationf("C04|missing-link|Vehicle.Trip|random-id-vehicle", detail(), "vehicle %v should link to trip %s", *want, f.Trips[ti].Key)
				continue
			}
			if a, b := canon.Dump(trip.Vehicle, c04VehOpts), canon.Dump(top, c04VehOpts); a != b {
				_, d, _ := diffPath(a, b)
				c.Violationf("C04|link-content|Trip.Vehicle|random", detail(), "what Trip.Vehicle reaches differs from the top-level vehicle: %s", d)
			}
			if a, b := canon.Dump(top.Trip, c04VehOpts), canon.Dump(trip, c04VehOpts); a != b {
				_, d, _ := diffPath(a, b)
				c.Violationf("C04|link-content|Vehicle.Trip|random", detail(), "what Vehicle.Trip reaches differs from the top-level trip: %s", d)
			}
		default: // id-less vehicle
			c.Cmp(2)
			if trip.Vehicle == nil {
				c.Violationf("C04|missing-link|Trip.Vehicle|random-idless-vehicle", detail(), "trip %s should link to an id-less vehicle", f.Trips[ti].Key)
				continue
			}
			if trip.Vehicle.Trip == nil || !tripIDEq(trip.Vehicle.Trip.ID, trip.ID) {
				c.Violationf("C04|not-mutual|Trip.Vehicle.Trip|random-idless-vehicle", detail(), "the id-less vehicle of trip %s does not lead back", f.Trips[ti].Key)
			}
			// the top-level entry of that id-less vehicle (recognised by the unique stop id of its position)
			marker := fmt.Sprintf("vp-stop-%d", 2000+(-2-v))
			var top *gtfs.Vehicle
			for j := range rt.Vehicles {
				if rt.Vehicles[j].ID == nil && rt.Vehicles[j].StopID != nil && *rt.Vehicles[j].StopID == marker {
					top = &rt.Vehicles[j]
				}
			}
			c.Cmp(3)
			if top == nil {
				c.Violationf("C04|vehicle-missing|random-idless-vehicle", detail(), "the id-less vehicle position %s is not in Vehicles", marker)
				continue
			}
			if top.Trip == nil || !tripIDEq(top.Trip.ID, trip.ID) {
				c.Violationf("C04|missing-link|Vehicle.Trip|random-idless-vehicle", detail(), "the top-level id-less vehicle %s should link to trip %s", marker, f.Trips[ti].Key)
				continue
			}
			if a, b := canon.Dump(trip.Vehicle, c04VehOpts), canon.Dump(top, c04VehOpts); a != b {
				_, d, _ := diffPath(a, b)
				c.Violationf("C04|link-content|Trip.Vehicle|random-idless-vehicle", detail(), "what Trip.Vehicle reaches differs from the top-level id-less vehicle: %s", d)
			}
		}
	}
	// vehicles without association have no trip
	assocVeh := map[int]bool{}
	for _, v := range f.Assoc {
		if v >= 0 {
			assocVeh[v] = true
		}
	}
	for vj := range f.Vehs {
		if assocVeh[vj] {
			continue
		}
		want := rgen.VehicleIDOf(f.Vehs[vj].Desc)
		for j := range rt.Vehicles {
			if rt.Vehicles[j].ID != nil && *rt.Vehicles[j].ID == *want {
				c.Cmp(1)
				if rt.Vehicles[j].Trip != nil {
					c.Violationf("C04|spurious-link|Vehicle.Trip|random", detail(), "vehicle %v has a trip although the feed makes no association", *want)
				}
			}
		}
	}
}

// tripIDEq compares trip identifiers field by field (instants by Equal).
func tripIDEq(a, b gtfs.TripID) bool {
	return a.ID == b.ID && a.RouteID == b.RouteID && a.DirectionID == b.DirectionID && a.HasStartTime == b.HasStartTime && a.StartTime == b.StartTime &&
		a.HasStartDate == b.HasStartDate && a.StartDate.Equal(b.StartDate) && a.ScheduleRelationship == b.ScheduleRelationship
}
