package mon

import (
	"fmt"
	"sort"
	"time"

	"github.com/jamespfennell/gtfs"
	"github.com/jamespfennell/gtfs/journal"

	"verifharness/core"
	"verifharness/hgen"
)

func init() {
	core.Register(&core.Property{
		ID:    "C15",
		Level: "exploration",
		Rule: "random histories of up to 10 (quick) / 16 (thorough) NYCT feeds over 1-4 trips that appear, vanish, reappear, gain a vehicle late or never, lose it again, and share or differ in start instants (same suffix with a different origin prefix, same start with a different suffix, two service dates); each history is replayed by a reference journal written from the statement and compared with BuildJournal under 7 windows (wide, empty, reversed, exactly [start,start], ending one second before / at / one second after a start instant) and for every prefix under the wide window; " +
			"distinct_nontrivial counts distinct (history shape, window kind) signatures of histories in which at least one trip is assigned",
		Cases: func(tier string) int {
			if tier == "thorough" {
				return 1200000 + 4*len(c15FeedCounts(tier))
			}
			return 20000 + 4*len(c15FeedCounts(tier))
		},
		Run: runC15,
		Assumptions: []string{
			"stop-time lists are checked through C14's transition invariants, not re-derived here; NumScheduleChanges/NumScheduleRewrites are not part of the statement and are not compared",
			"trip ids are NYCT-format (>= 6 characters); a third of the histories contain pairs of trip descriptors with one and the same (start instant, suffix) - for an identity that some feed names twice only membership in the result is asserted, not its fields",
		},
	})
}

type c15Ref struct {
	uid, tripID, routeID, vehicleID string
	dir                             gtfs.DirectionID
	start                           time.Time
	assigned                        bool
	lastObserved                    time.Time
	markedPast                      *time.Time
	numUpdates                      int
	// twin: some feed named this identity twice (two trip descriptors with the same start instant and suffix); the
	// statement does not say what is recorded for it then, so its fields are not asserted
	twin bool
}

// c15Replay is the reference journal: a direct replay of the parsed feeds, written from the statement.
func c15Replay(feeds []*gtfs.Realtime) map[string]*c15Ref {
	trips := map[string]*c15Ref{}
	active := map[string]bool{}
	for _, rt := range feeds {
		t := rt.CreatedAt
		now := map[string]bool{}
		for i := range rt.Trips {
			tr := &rt.Trips[i]
			uid := uidOf(tr)
			ref, ok := trips[uid]
			if !ok {
				ref = &c15Ref{uid: uid}
				trips[uid] = ref
			}
			if now[uid] {
				ref.twin = true
			}
			now[uid] = true
			hasVehicle := tr.Vehicle != nil
			if ref.assigned && !hasVehicle {
				continue // once seen with a vehicle, updates that lack one do not alter the recorded data
			}
			ref.tripID, ref.routeID, ref.dir = tr.ID.ID, tr.ID.RouteID, tr.ID.DirectionID
			ref.start = tr.ID.StartDate.Add(tr.ID.StartTime)
			ref.vehicleID = ""
			if hasVehicle && tr.Vehicle.ID != nil {
				ref.vehicleID = tr.Vehicle.ID.ID
			}
			ref.assigned = ref.assigned || hasVehicle
			ref.lastObserved = t
			ref.markedPast = nil
			ref.numUpdates++
		}
		for uid := range active {
			if !now[uid] && trips[uid].markedPast == nil {
				tt := t
				trips[uid].markedPast = &tt
			}
		}
		active = now
	}
	return trips
}

func c15Compare(c *core.Ctx, feeds []*gtfs.Realtime, from, to time.Time, kind string, detail func() any) {
	j := journal.BuildJournal(&hgen.SliceSource{Feeds: feeds}, from, to)
	c.Eval(1)
	ref := c15Replay(feeds)
	var want []string
	for uid, r := range ref {
		if r.assigned && !r.start.Before(from) && !to.Before(r.start) {
			want = append(want, uid)
		}
	}
	sort.Strings(want)
	var got []string
	for i := range j.Trips {
		got = append(got, journalKey(&j.Trips[i]))
		// sorted by trip UID, without duplicates (the UID's textual format is the library's business)
		c.Cmp(1)
		if i > 0 && !(j.Trips[i-1].TripUID < j.Trips[i].TripUID) {
			c.Violationf("C15|not-sorted-by-uid|"+kind, detail(), "journal trips are not strictly ascending by TripUID: %q before %q", j.Trips[i-1].TripUID, j.Trips[i].TripUID)
		}
	}
	gotSorted := append([]string(nil), got...)
	sort.Strings(gotSorted)
	c.Cmp(1)
	if fmt.Sprint(want) != fmt.Sprint(gotSorted) {
		c.Violationf("C15|selection|"+kind, detail(), "window %s [%d,%d]: journal holds (start|suffix) %v, expected exactly %v (assigned at least once, start in the closed window, one entry per distinct start instant and suffix)", kind, from.Unix(), to.Unix(), gotSorted, want)
		return
	}
	for i := range j.Trips {
		g := &j.Trips[i]
		w := ref[journalKey(g)]
		if w.twin {
			c.Skip("fields-of-an-identity-named-twice-in-one-feed-not-asserted")
			continue
		}
		c.Cmp(9)
		mism := func(field string, a, b any) {
			c.Violationf("C15|field|"+field, detail(), "trip %s: %s is %v, expected %v", g.TripUID, field, a, b)
		}
		if g.TripID != w.tripID {
			mism("TripID", g.TripID, w.tripID)
		}
		if g.RouteID != w.routeID {
			mism("RouteID", g.RouteID, w.routeID)
		}
		if g.DirectionID != w.dir {
			mism("DirectionID", g.DirectionID, w.dir)
		}
		if !g.StartTime.Equal(w.start) {
			mism("StartTime", g.StartTime.Unix(), w.start.Unix())
		}
		if g.VehicleID != w.vehicleID {
			mism("VehicleID", g.VehicleID, w.vehicleID)
		}
		if !g.IsAssigned {
			mism("IsAssigned", g.IsAssigned, true)
		}
		if !g.LastObserved.Equal(w.lastObserved) {
			mism("LastObserved", g.LastObserved.Unix(), w.lastObserved.Unix())
		}
		if !timePtrEq(g.MarkedPast, w.markedPast) {
			mism("MarkedPast", fmtTimePtr(g.MarkedPast), fmtTimePtr(w.markedPast))
		}
		if g.NumUpdates != w.numUpdates {
			mism("NumUpdates", g.NumUpdates, w.numUpdates)
		}
		// marking a trip past marks all its not-yet-past stops past
		if g.MarkedPast != nil {
			for k := range g.StopTimes {
				c.Cmp(1)
				if g.StopTimes[k].MarkedPast == nil {
					c.Violationf("C15|trip-past-but-stop-not-past", detail(), "trip %s is marked past but its stop %d (%s) is not", g.TripUID, k, g.StopTimes[k].StopID)
				}
			}
		}
	}
}

func fmtTimePtr(t *time.Time) string {
	if t == nil {
		return "none"
	}
	return fmt.Sprint(t.Unix())
}

func c15FeedCounts(tier string) []int {
	out := []int{127, 128, 129, 255, 256, 257, 999, 1000, 1001, 1023, 1024, 1025, 2000, 2049}
	if tier == "thorough" {
		out = append(out, 3000, 4096, 4097, 5000, 10000)
	}
	return out
}

func runC15(c *core.Ctx) {
	maxFeeds := 10
	if c.Thorough() {
		maxFeeds = 16
	}
	o := hgen.Opts{MaxFeeds: maxFeeds, MaxTrips: 4, AlwaysAssigned: c.Index%3 == 0, RepeatStops: c.Index%5 == 0, Twins: c.Index%3 == 1}
	long := false
	if fc := c15FeedCounts(c.Tier); c.Index < 4*len(fc) {
		// size sweep: long histories (a trip stays unassigned for a long time, vanishes around the threshold, comes back)
		o = hgen.Opts{MaxFeeds: 1, MaxTrips: 3, AlwaysAssigned: false, ExactFeeds: fc[c.Index/4] + c.Index%4*7}
		long = true
		c.Feature("size-sweep:long-history")
	}
	h := hgen.Gen(c.R, o)
	h.ZoneMode = c.R.Intn(hgen.ZoneModes)
	c.Feature(fmt.Sprintf("feeds-parsed-with-zone-mode:%d", h.ZoneMode))
	feeds, err := h.Parse()
	if err != nil {
		c.Violationf("C15|parse-error", map[string]any{"error": err.Error()}, "ParseRealtime rejected a history feed: %v", err)
		return
	}
	detail := func() any {
		var msgs []string
		for i := range h.Feeds {
			msgs = append(msgs, prototextOf(h.Feeds[i].Message()))
		}
		return map[string]any{"history": msgs}
	}
	ref := c15Replay(feeds)
	anyAssigned := false
	var starts []time.Time
	for _, r := range ref {
		if r.assigned {
			anyAssigned = true
		}
		starts = append(starts, r.start)
	}
	sort.Slice(starts, func(i, j int) bool { return starts[i].Before(starts[j]) })
	wide0, wide1 := time.Unix(0, 0), time.Unix(1<<40, 0)
	type win struct {
		kind     string
		from, to time.Time
	}
	wins := []win{{"wide", wide0, wide1}}
	if len(starts) > 0 {
		s := core.Pick(c.R, starts)
		wins = append(wins,
			win{"exactly-start", s, s},
			win{"ends-one-second-before-start", wide0, s.Add(-time.Second)},
			win{"ends-at-start", wide0, s},
			win{"ends-one-second-after-start", wide0, s.Add(time.Second)},
			win{"begins-at-start", s, wide1},
			win{"begins-one-second-after-start", s.Add(time.Second), wide1},
			win{"begins-half-a-second-after-start", s.Add(500 * time.Millisecond), wide1},
			win{"begins-a-nanosecond-after-start", s.Add(time.Nanosecond), wide1},
			win{"ends-half-a-second-before-start", wide0, s.Add(-500 * time.Millisecond)},
			win{"ends-a-nanosecond-before-start", wide0, s.Add(-time.Nanosecond)},
			win{"ends-half-a-second-after-start", wide0, s.Add(500 * time.Millisecond)},
			win{"empty", s.Add(time.Second), s},
			win{"reversed", wide1, wide0},
			win{"between-first-and-last-start", starts[0], starts[len(starts)-1]},
		)
	}
	for _, w := range wins {
		if anyAssigned {
			c.Shape(h.Sig() + " " + w.kind)
		}
		c.Feature("window:" + w.kind)
		c15Compare(c, feeds, w.from, w.to, w.kind, detail)
	}
	// every prefix under the wide window (long histories: prefixes around the size thresholds only)
	for n := 1; n < len(feeds); n++ {
		if long && !(n%1000 <= 2 || n%1000 >= 998 || n%256 <= 1 || n%256 == 255) {
			continue
		}
		c15Compare(c, feeds[:n], wide0, wide1, "prefix", detail)
	}
	if c.WantSample() && anyAssigned && len(feeds) >= 4 {
		var rows []string
		for uid, r := range ref {
			rows = append(rows, fmt.Sprintf("%s assigned=%v updates=%d last=%d past=%s vehicle=%q", uid, r.assigned, r.numUpdates, r.lastObserved.Unix(), fmtTimePtr(r.markedPast), r.vehicleID))
		}
		sort.Strings(rows)
		c.Sample(map[string]any{"history": h.Sig(), "reference_journal": rows, "first_feed": prototextOf(h.Feeds[0].Message())})
	}
}
