package mon

import (
	"reflect"
	"strings"

	"google.golang.org/protobuf/encoding/prototext"
	"google.golang.org/protobuf/proto"

	"github.com/jamespfennell/gtfs"
	"github.com/jamespfennell/gtfs/extensions/nycttrips"
	gtfsrt "github.com/jamespfennell/gtfs/proto"

	"verifharness/canon"
	"verifharness/core"
	"verifharness/rgen"
)

// diffPath returns the generic path (indices stripped) of the first differing
// line of two canonical dumps, plus a short description; ok is false when equal.
func diffPath(a, b string) (path string, desc string, differ bool) {
	if a == b {
		return "", "", false
	}
	la := strings.Split(a, "\n")
	lb := strings.Split(b, "\n")
	for i := 0; i < len(la) || i < len(lb); i++ {
		x, y := "<end>", "<end>"
		if i < len(la) {
			x = la[i]
		}
		if i < len(lb) {
			y = lb[i]
		}
		if x != y {
			p := x
			if x == "<end>" {
				p = y
			}
			if j := strings.Index(p, " = "); j >= 0 {
				p = p[:j]
			}
			return genericPath(p), core.Trunc(x, 240) + "  ≠  " + core.Trunc(y, 240), true
		}
	}
	return "", "", false
}

func truncBytes(b []byte, n int) []byte {
	if len(b) > n {
		return b[:n]
	}
	return b
}

func prototextMarshal(m proto.Message) string {
	return prototext.MarshalOptions{Multiline: false}.Format(m)
}

// skipInterplay: a trip update that an extension asks to skip (a stale unassigned NYCT trip under the stale filter) and a
// vehicle position that carries the same trip descriptor, in every entity order, next to an unrelated trip. The vehicle
// position still associates its vehicle with that trip (C04: both references set and mutual), and the result does not depend
// on the order of the entities (C07). prop is the property on whose behalf the check runs.
func skipInterplay(c *core.Ctx, prop string) {
	r := c.R
	for _, veh := range []string{"id", "label", "none"} {
		mkDesc := func() *gtfsrt.TripDescriptor {
			d := &gtfsrt.TripDescriptor{TripId: rgen.S("123450_A..N07"), RouteId: rgen.S("A"), StartDate: rgen.S("20231114")}
			c16SetNyct(d, "false", "NORTH", "")
			return d
		}
		tu := &gtfsrt.TripUpdate{Trip: mkDesc(), StopTimeUpdate: c16Stops("dep<", "none", r)}
		vp := &gtfsrt.VehiclePosition{Trip: mkDesc(), StopId: rgen.S("A20N"), Timestamp: rgen.U64(c16FeedTs)}
		switch veh {
		case "id":
			vp.Vehicle = &gtfsrt.VehicleDescriptor{Id: rgen.S("V1")}
		case "label":
			vp.Vehicle = &gtfsrt.VehicleDescriptor{Label: rgen.S("car 9")}
		}
		other := &gtfsrt.TripUpdate{Trip: &gtfsrt.TripDescriptor{TripId: rgen.S("other"), RouteId: rgen.S("B")}, StopTimeUpdate: []*gtfsrt.TripUpdate_StopTimeUpdate{{StopId: rgen.S("S1")}}}
		ents := []*gtfsrt.FeedEntity{{Id: rgen.S("tu"), TripUpdate: tu}, {Id: rgen.S("vp"), Vehicle: vp}, {Id: rgen.S("other"), TripUpdate: other}}
		var first string
		for _, perm := range [][]int{{0, 1, 2}, {0, 2, 1}, {1, 0, 2}, {1, 2, 0}, {2, 0, 1}, {2, 1, 0}} {
			m := &gtfsrt.FeedMessage{Header: &gtfsrt.FeedHeader{GtfsRealtimeVersion: rgen.S("1.0"), Timestamp: rgen.U64(c16FeedTs)}}
			for _, j := range perm {
				m.Entity = append(m.Entity, ents[j])
			}
			rt, err := gtfs.ParseRealtime(rgen.Marshal(m), &gtfs.ParseRealtimeOptions{Extension: nycttrips.Extension(nycttrips.ExtensionOpts{FilterStaleUnassignedTrips: true})})
			c.Eval(1)
			c.Feature("skipped-trip-update-next-to-a-vehicle-position-of-the-same-trip")
			detail := map[string]any{"message": prototextOf(m), "vehicle_descriptor": veh}
			if err != nil {
				c.Violationf(prop+"|skip-interplay|parse-error", detail, "ParseRealtime failed: %v", err)
				return
			}
			c.Cmp(2)
			if prop == "C04" {
				var v *gtfs.Vehicle
				for i := range rt.Vehicles {
					if rt.Vehicles[i].StopID != nil && *rt.Vehicles[i].StopID == "A20N" {
						v = &rt.Vehicles[i]
					}
				}
				switch {
				case v == nil:
					c.Violationf("C04|skip-interplay|vehicle-missing|"+veh, detail, "the vehicle of the vehicle position is not in Vehicles")
				case v.Trip == nil:
					c.Violationf("C04|skip-interplay|missing-link|Vehicle.Trip|"+veh, detail, "the vehicle position carries a trip descriptor but Vehicle.Trip is nil (its trip update was skipped by the extension)")
				case v.Trip.Vehicle == nil || !reflect.DeepEqual(v.Trip.Vehicle.ID, v.ID):
					c.Violationf("C04|skip-interplay|not-mutual|"+veh, detail, "Vehicle.Trip.Vehicle does not lead back to the vehicle")
				}
			}
			d := canon.DumpRealtime(rt, false)
			if first == "" {
				first = d
			} else if prop == "C07" && d != first {
				_, desc, _ := diffPath(first, d)
				c.Violationf("C07|skip-interplay|order-dependent|"+veh, detail, "entity order %v gives a different result than order [0 1 2] when an extension skips a trip update: %s", perm, desc)
				return
			}
		}
	}
}
