package mon

import (
	"strings"

	"google.golang.org/protobuf/encoding/prototext"
	"google.golang.org/protobuf/proto"

	"verifharness/core"
)

// diffPath returns the generic path (indices stripped) of the first differing
// line of two canonical dumps, plus a short description; ok is false when equal.
func diffPath(a, b string) (path string, desc string, differ bool) {
	if a == b {
		return "", "", false
	}
	la := strings.Split(a, "\n")
	lb := strings.Split(b, "\n")
	for i := 0; i < len(la) || i < len(lb); i++ {
		x, y := "<end>", "<end>"
		if i < len(la) {
			x = la[i]
		}
		if i < len(lb) {
			y = lb[i]
		}
		if x != y {
			p := x
			if x == "<end>" {
				p = y
			}
			if j := strings.Index(p, " = "); j >= 0 {
				p = p[:j]
			}
			return genericPath(p), core.Trunc(x, 240) + "  ≠  " + core.Trunc(y, 240), true
		}
	}
	return "", "", false
}

func truncBytes(b []byte, n int) []byte {
	if len(b) > n {
		return b[:n]
	}
	return b
}

func prototextMarshal(m proto.Message) string {
	return prototext.MarshalOptions{Multiline: false}.Format(m)
}
