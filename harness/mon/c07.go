package mon

import (
	"fmt"
	"strings"

	"github.com/jamespfennell/gtfs"
	gtfsrt "github.com/jamespfennell/gtfs/proto"
	"google.golang.org/protobuf/proto"

	"verifharness/canon"
	"verifharness/core"
	"verifharness/rgen"
)

func init() {
	core.Register(&core.Property{
		ID:    "C07",
		Level: "exploration",
		Rule: "conflict-free stream: each case draws a message of 2-8 entities in which trips are mentioned by their own trip update, by vehicle positions and by alerts, and vehicles by their own position and by trip updates, and parses every permutation of its entities (all n! for n<=5 quick / n<=6 thorough, 60/200 sampled above); conflicting stream (every 4th case): duplicate trip updates/vehicle positions with different data and contradictory associations, checked for the uniqueness/sortedness invariants only; " +
			"distinct_nontrivial counts distinct (message shape, permutation) pairs of conflict-free messages in which at least one trip or vehicle is both described and referenced",
		Cases: func(tier string) int {
			if tier == "thorough" {
				return 30000 + len(rtSizeCases(tier))
			}
			return 3000 + len(rtSizeCases(tier))
		},
		Run: runC07,
		Assumptions: []string{
			"vehicles are compared as a multiset (their order is C06's subject); trips in result order, which the statement claims sorted",
			"TripID.Less (exported) is taken as the trip-identifier order and is itself checked to be a strict weak order on the identifiers observed",
		},
	})
}

// c07Opts: trips in result order, vehicles as a multiset, alerts removed (checked separately).
var c07Opts = &canon.Options{
	SortPaths:  map[string]bool{"->.Vehicles": true},
	SkipFields: map[string]bool{"Realtime.Alerts": true},
}

func c07Invariants(c *core.Ctx, rt *gtfs.Realtime, stream string, detail func() any) {
	for i := range rt.Trips {
		a := rt.Trips[i].ID
		c.Cmp(1)
		if a.Less(a) {
			c.Violationf("C07|less-not-irreflexive", detail(), "TripID.Less(x, x) is true for %+v", a)
		}
		for j := i + 1; j < len(rt.Trips); j++ {
			b := rt.Trips[j].ID
			c.Cmp(2)
			if tripIDEq(a, b) {
				c.Violationf("C07|duplicate-trip-id|"+stream, detail(), "Trips holds two entries with the same identifier %+v", a)
			}
			if a.Less(b) && b.Less(a) {
				c.Violationf("C07|less-not-asymmetric", detail(), "TripID.Less is not asymmetric on %+v / %+v", a, b)
			}
			if j == i+1 && b.Less(a) {
				c.Violationf("C07|trips-not-sorted|"+stream, detail(), "Trips[%d] sorts after Trips[%d]", i, j)
			}
			if !a.Less(b) && !b.Less(a) && !tripIDEq(a, b) {
				c.Violationf("C07|less-does-not-separate-distinct-ids", detail(), "two distinct identifiers are equivalent under Less: %+v / %+v", a, b)
			}
		}
	}
	// transitivity on all triples (lists are short)
	n := len(rt.Trips)
	if n <= 8 {
		for i := 0; i < n; i++ {
			for j := 0; j < n; j++ {
				for k := 0; k < n; k++ {
					x, y, z := rt.Trips[i].ID, rt.Trips[j].ID, rt.Trips[k].ID
					c.Cmp(1)
					if x.Less(y) && y.Less(z) && !x.Less(z) {
						c.Violationf("C07|less-not-transitive", detail(), "TripID.Less is not transitive on %+v / %+v / %+v", x, y, z)
					}
				}
			}
		}
	}
	for i := range rt.Vehicles {
		if rt.Vehicles[i].ID == nil {
			continue
		}
		for j := i + 1; j < len(rt.Vehicles); j++ {
			c.Cmp(1)
			if rt.Vehicles[j].ID != nil && *rt.Vehicles[i].ID == *rt.Vehicles[j].ID {
				c.Violationf("C07|duplicate-vehicle-id|"+stream, detail(), "Vehicles holds two entries with the identifier %+v", *rt.Vehicles[i].ID)
			}
		}
	}
}

func alertDumps(rt *gtfs.Realtime) (ids []string, byID map[string]string) {
	byID = map[string]string{}
	for i := range rt.Alerts {
		ids = append(ids, rt.Alerts[i].ID)
		byID[rt.Alerts[i].ID] = canon.Dump(&rt.Alerts[i], nil)
	}
	return
}

func runC07(c *core.Ctx) {
	r := c.R
	if c.Index%61 == 17 {
		skipInterplay(c, "C07")
	}
	sc := rtSizeCases(c.Tier)
	if c.Index >= len(sc) && c.Index%4 == 3 {
		c07Conflicting(c)
		return
	}
	var f *rgen.Feed
	full, sample := 5, 60
	if c.Thorough() {
		full, sample = 6, 200
	}
	if c.Index < len(sc) {
		f = rgen.GenFeed(r, sc[c.Index].opts)
		sample = 10
		c.Feature("size-sweep")
	} else {
		for tries := 0; ; tries++ {
			f = rgen.GenFeed(r, rgen.Opts{MaxTrips: 4, MaxVehs: 3, MaxAlerts: 3, MaxIDLess: 1, PassThroughSelectorsOnly: true})
			if n := len(f.Msg.Entity); (n >= 2 && n <= 8) || tries > 20 {
				break
			}
		}
	}
	n := len(f.Msg.Entity)
	// is something both described and referenced?
	merges := 0
	for _, e := range f.Msg.Entity {
		if e.Vehicle != nil && e.Vehicle.Trip != nil {
			merges++
		}
		if e.TripUpdate != nil && e.TripUpdate.Vehicle != nil {
			merges++
		}
		if e.Alert != nil {
			for _, s := range e.Alert.InformedEntity {
				if s.Trip != nil {
					merges++
				}
			}
		}
	}
	base, err := gtfs.ParseRealtime(rgen.Marshal(f.Msg), &gtfs.ParseRealtimeOptions{})
	c.Eval(1)
	if err != nil {
		c.Violationf("C07|parse-error", map[string]any{"error": err.Error()}, "ParseRealtime rejected a valid message: %v", err)
		return
	}
	baseDump := canon.Dump(base, c07Opts)
	_, baseAlerts := alertDumps(base)
	shape := feedShape(f)
	check := func(p []int) {
		m := rgen.Permute(f.Msg, p)
		rt, err := gtfs.ParseRealtime(rgen.Marshal(m), &gtfs.ParseRealtimeOptions{})
		c.Eval(1)
		detail := func() any {
			return map[string]any{"entity_order": fmt.Sprint(p), "message_in_base_order": prototextOf(f.Msg)}
		}
		if err != nil {
			c.Violationf("C07|parse-error", detail(), "ParseRealtime rejected a permuted message: %v", err)
			return
		}
		if merges > 0 {
			c.Shape(shape + fmt.Sprint(p))
		}
		c.Cmp(1)
		if path, desc, differ := diffPath(baseDump, canon.Dump(rt, c07Opts)); differ {
			c.Violationf("C07|order-dependent|"+path, detail(), "permuting the entities changed trips/vehicles/links: %s", desc)
		}
		// alerts keep their relative feed order and their content
		var wantIDs []string
		for _, j := range p {
			if f.Msg.Entity[j].Alert != nil {
				wantIDs = append(wantIDs, f.Msg.Entity[j].GetId())
			}
		}
		gotIDs, gotAlerts := alertDumps(rt)
		c.Cmp(1)
		if strings.Join(wantIDs, ",") != strings.Join(gotIDs, ",") {
			c.Violationf("C07|alerts-relative-order", detail(), "alerts are not in feed order: want %v, got %v", wantIDs, gotIDs)
		} else {
			for _, id := range gotIDs {
				c.Cmp(1)
				if path, desc, differ := diffPath(strings.ReplaceAll(baseAlerts[id], "\n", "\n"), gotAlerts[id]); differ {
					c.Violationf("C07|alert-content-order-dependent|"+path, detail(), "alert %s changed with the entity order: %s", id, desc)
				}
			}
		}
		// own entity wins, wherever it appears: compare with the reference transcription
		ref := rgen.Ref(m, nil)
		if ref.UnassertedDates == 0 {
			c.Cmp(1)
			if path, desc, differ := diffPath(canon.Dump(ref.RT, c02Opts), canon.Dump(rt, c02Opts)); differ {
				c.Violationf("C07|own-entity-data|"+path, detail(), "result does not carry the data of the own entity (expected ≠ parsed): %s", desc)
			}
		}
		c07Invariants(c, rt, "conflict-free", detail)
	}
	permutations(r, n, full, sample, check)
	if n <= full {
		c.Feature("all-permutations")
	} else {
		c.Feature("sampled-permutations")
	}
	c.Feature(fmt.Sprintf("entities:%d", n))
	if merges > 0 {
		c.Feature("described-and-referenced")
	}
	if c.WantSample() && merges >= 2 {
		c.Sample(map[string]any{"shape": shape, "entities": n, "message": prototextOf(f.Msg)})
	}
}

// c07Conflicting builds messages that describe the same trip/vehicle twice in
// conflicting ways; only the invariants for "every message" are checked.
func c07Conflicting(c *core.Ctx) {
	r := c.R
	f := rgen.GenFeed(r, rgen.Opts{MaxTrips: 4, MaxVehs: 3, MaxAlerts: 2, MaxIDLess: 2, PassThroughSelectorsOnly: true})
	m := f.Msg
	var tus, vps []*gtfsrt.FeedEntity
	for _, e := range m.Entity {
		if e.TripUpdate != nil {
			tus = append(tus, e)
		}
		if e.Vehicle != nil {
			vps = append(vps, e)
		}
	}
	kinds := ""
	add := func(e *gtfsrt.FeedEntity) {
		e.Id = rgen.S(fmt.Sprintf("dup%d", len(m.Entity)))
		pos := r.Intn(len(m.Entity) + 1)
		m.Entity = append(m.Entity, nil)
		copy(m.Entity[pos+1:], m.Entity[pos:])
		m.Entity[pos] = e
	}
	nops := 1 + r.Intn(4)
	for k := 0; k < nops; k++ {
		switch r.Intn(5) {
		case 0: // second trip update for the same trip with different data
			if len(tus) > 0 {
				e := proto.Clone(core.Pick(r, tus)).(*gtfsrt.FeedEntity)
				e.TripUpdate.StopTimeUpdate = []*gtfsrt.TripUpdate_StopTimeUpdate{rgen.GenStopTimeUpdate(r, 9)}
				add(e)
				kinds += "dup-trip-update;"
			}
		case 1: // second vehicle position for the same vehicle
			if len(vps) > 0 {
				e := proto.Clone(core.Pick(r, vps)).(*gtfsrt.FeedEntity)
				e.Vehicle.StopId = rgen.S("other-stop")
				add(e)
				kinds += "dup-vehicle-position;"
			}
		case 2: // a trip claimed by a second vehicle
			if len(tus) > 0 {
				e := proto.Clone(core.Pick(r, tus)).(*gtfsrt.FeedEntity)
				e.TripUpdate.Vehicle = &gtfsrt.VehicleDescriptor{Id: rgen.S(fmt.Sprintf("intruder%d", k))}
				add(e)
				kinds += "second-vehicle-for-trip;"
			}
		case 3: // a vehicle claimed by a second trip
			if len(vps) > 0 {
				e := proto.Clone(core.Pick(r, vps)).(*gtfsrt.FeedEntity)
				e.Vehicle.Trip = &gtfsrt.TripDescriptor{TripId: rgen.S(fmt.Sprintf("intruder-trip%d", k))}
				add(e)
				kinds += "second-trip-for-vehicle;"
			}
		default: // descriptors equal up to absent-vs-empty strings and explicit SCHEDULED
			if len(tus) > 0 {
				e := proto.Clone(core.Pick(r, tus)).(*gtfsrt.FeedEntity)
				d := e.TripUpdate.Trip
				if d.TripId == nil {
					d.TripId = rgen.S("")
				}
				if d.RouteId == nil {
					d.RouteId = rgen.S("")
				}
				if d.ScheduleRelationship == nil {
					sr := gtfsrt.TripDescriptor_SCHEDULED
					d.ScheduleRelationship = &sr
				}
				add(e)
				kinds += "same-trip-different-spelling;"
			}
		}
	}
	rt, err := gtfs.ParseRealtime(rgen.Marshal(m), &gtfs.ParseRealtimeOptions{})
	c.Eval(1)
	c.Feature("conflicting-message")
	for _, k := range strings.Split(kinds, ";") {
		if k != "" {
			c.Feature("conflict:" + k)
		}
	}
	if err != nil {
		c.Skip("conflicting-message-rejected")
		return
	}
	c07Invariants(c, rt, "conflicting", func() any { return map[string]any{"conflicts": kinds, "message": prototextOf(m)} })
}
