// Package mon holds one monitor per property (cXX.go) and shared helpers.
package mon

import (
	"math"
	"reflect"
	"strings"
	"time"
)

var timeType = reflect.TypeOf(time.Time{})

// deepCopy copies v following pointers and slices. Cycles are cut with the seen map.
func deepCopy(v reflect.Value, seen map[uintptr]reflect.Value) reflect.Value {
	switch v.Kind() {
	case reflect.Ptr:
		if v.IsNil() {
			return v
		}
		if c, ok := seen[v.Pointer()]; ok {
			return c
		}
		n := reflect.New(v.Type().Elem())
		seen[v.Pointer()] = n
		n.Elem().Set(deepCopy(v.Elem(), seen))
		return n
	case reflect.Slice:
		if v.IsNil() {
			return v
		}
		n := reflect.MakeSlice(v.Type(), v.Len(), v.Len())
		for i := 0; i < v.Len(); i++ {
			n.Index(i).Set(deepCopy(v.Index(i), seen))
		}
		return n
	case reflect.Struct:
		if v.Type() == timeType {
			return v
		}
		n := reflect.New(v.Type()).Elem()
		n.Set(v)
		for i := 0; i < v.NumField(); i++ {
			if !v.Type().Field(i).IsExported() {
				continue
			}
			n.Field(i).Set(deepCopy(v.Field(i), seen))
		}
		return n
	}
	return v
}

// DeepCopy returns a deep copy of *T.
func DeepCopy[T any](p *T) *T {
	if p == nil {
		return nil
	}
	return deepCopy(reflect.ValueOf(p), map[uintptr]reflect.Value{}).Interface().(*T)
}

// mutation describes one single-point change applied to a deep copy.
type mutation struct {
	Path string // generic path of the changed leaf
	Kind string // what was done
}

// mutateAll returns, for root (a pointer to a struct), one deep copy per
// single-point mutation of every reachable exported leaf: strings changed,
// numbers changed, bools flipped, pointers nil<->zero value, zero->non-zero,
// slices shortened/extended, instants shifted, zone presentation changed.
// skip(path) prunes sub-trees (used to avoid following back-references).
// mutSep is the separator byte of the current case for the "str-append-sep" / "str-prepend-sep" mutations: a hash input
// that glues adjacent strings together with some separator collides for strings that carry it at the boundary
// ("a"+sep | "b"  vs  "a" | sep+"b"). The case runner sets it; children run their cases one after the other.
var mutSep = "\x1f"

// mutSeps are the separators rotated over the cases.
var mutSeps = []string{"\x1f", "\x00", "\x1e", "|", ",", ":", ";", "/", "\n", "\t", " ", "-", "_", "#", "\xff", "0", "é"}

func mutateAll[T any](root *T, otherZone *time.Location, skip func(path string) bool) ([]*T, []mutation) {
	var outs []*T
	var muts []mutation
	// Enumerate mutation points on a scratch copy to learn the paths, then for
	// each point re-copy and apply.
	type point struct {
		path string
		kind string
	}
	var points []point
	var walk func(v reflect.Value, path string, depth int)
	walk = func(v reflect.Value, path string, depth int) {
		if depth > 12 || (skip != nil && skip(path)) {
			return
		}
		switch v.Kind() {
		case reflect.Ptr:
			if v.IsNil() {
				points = append(points, point{path, "nil->zero"})
				return
			}
			points = append(points, point{path, "->nil"})
			walk(v.Elem(), path+"->", depth+1)
		case reflect.Slice:
			points = append(points, point{path, "append-zero"})
			if v.Len() > 0 {
				points = append(points, point{path, "drop-last"}, point{path, "drop-first"})
				if v.Len() > 1 {
					points = append(points, point{path, "swap-first-two"})
				}
			}
			for i := 0; i < v.Len(); i++ {
				walk(v.Index(i), path+"["+itoa(i)+"]", depth+1)
			}
		case reflect.Struct:
			if v.Type() == timeType {
				points = append(points, point{path, "time+1s"}, point{path, "time-zone"})
				return
			}
			for i := 0; i < v.NumField(); i++ {
				f := v.Type().Field(i)
				if !f.IsExported() {
					continue
				}
				walk(v.Field(i), path+"."+f.Name, depth+1)
			}
		case reflect.String:
			points = append(points, point{path, "str-append"}, point{path, "str-empty-toggle"}, point{path, "str-append-sep"}, point{path, "str-prepend-sep"})
		case reflect.Bool:
			points = append(points, point{path, "flip"})
		case reflect.Int, reflect.Int8, reflect.Int16, reflect.Int32, reflect.Int64,
			reflect.Uint, reflect.Uint8, reflect.Uint16, reflect.Uint32, reflect.Uint64,
			reflect.Float32, reflect.Float64:
			points = append(points, point{path, "num+1"}, point{path, "num-zero-toggle"}, point{path, "num-next"}, point{path, "num-negate"}, point{path, "num+360"})
		}
	}
	walk(reflect.ValueOf(root).Elem(), "", 0)

	for _, pt := range points {
		cp := DeepCopy(root)
		if applyMutation(reflect.ValueOf(cp).Elem(), "", pt.path, pt.kind, otherZone) {
			outs = append(outs, cp)
			muts = append(muts, mutation{Path: genericPath(pt.path), Kind: pt.kind})
		}
	}
	return outs, muts
}

func itoa(i int) string {
	if i == 0 {
		return "0"
	}
	var b [20]byte
	n := len(b)
	neg := i < 0
	if neg {
		i = -i
	}
	for i > 0 {
		n--
		b[n] = byte('0' + i%10)
		i /= 10
	}
	if neg {
		n--
		b[n] = '-'
	}
	return string(b[n:])
}

func genericPath(p string) string {
	var b strings.Builder
	in := false
	for _, c := range p {
		switch {
		case c == '[':
			in = true
			b.WriteRune(c)
		case c == ']':
			in = false
			b.WriteRune(c)
		case !in:
			b.WriteRune(c)
		}
	}
	return b.String()
}

func applyMutation(v reflect.Value, path, target, kind string, otherZone *time.Location) bool {
	if path == target {
		switch kind {
		case "nil->zero":
			v.Set(reflect.New(v.Type().Elem()))
			return true
		case "->nil":
			v.Set(reflect.Zero(v.Type()))
			return true
		case "append-zero":
			v.Set(reflect.Append(v, reflect.Zero(v.Type().Elem())))
			return true
		case "drop-last":
			v.Set(v.Slice(0, v.Len()-1))
			return true
		case "drop-first":
			v.Set(v.Slice(1, v.Len()))
			return true
		case "swap-first-two":
			a := reflect.New(v.Type().Elem()).Elem()
			a.Set(v.Index(0))
			v.Index(0).Set(v.Index(1))
			v.Index(1).Set(a)
			return true
		case "time+1s":
			t := v.Interface().(time.Time)
			v.Set(reflect.ValueOf(t.Add(time.Second)))
			return true
		case "time-zone":
			t := v.Interface().(time.Time)
			v.Set(reflect.ValueOf(t.In(otherZone)))
			return true
		case "str-append":
			v.SetString(v.String() + "a")
			return true
		case "str-append-sep":
			v.SetString(v.String() + mutSep)
			return true
		case "str-prepend-sep":
			v.SetString(mutSep + v.String())
			return true
		case "str-empty-toggle":
			if v.String() == "" {
				v.SetString("b")
			} else {
				v.SetString("")
			}
			return true
		case "flip":
			v.SetBool(!v.Bool())
			return true
		case "num-next":
			// the smallest change the type can express at a distance where narrower types cannot follow: one ulp for
			// floats, 2^32 for 64-bit integers (a hash that narrows float64 to float32 or int64 to int32 collides here)
			switch v.Kind() {
			case reflect.Float64:
				f := v.Float()
				if math.IsNaN(f) || math.IsInf(f, 0) {
					return false
				}
				v.SetFloat(math.Nextafter(f, math.Inf(1)))
			case reflect.Float32:
				f := float32(v.Float())
				if f != f || math.IsInf(float64(f), 0) {
					return false
				}
				v.SetFloat(float64(math.Nextafter32(f, float32(math.Inf(1)))))
			case reflect.Int, reflect.Int64:
				if v.Int() > math.MaxInt64-(1<<32) {
					return false
				}
				v.SetInt(v.Int() + 1<<32)
			case reflect.Uint, reflect.Uint64:
				if v.Uint() > math.MaxUint64-(1<<32) {
					return false
				}
				v.SetUint(v.Uint() + 1<<32)
			default:
				return false
			}
			return true
		case "num+360":
			// a full turn / a wrap of the longitude: equal "as an angle", different as data
			switch v.Kind() {
			case reflect.Float32, reflect.Float64:
				f := v.Float()
				if math.IsNaN(f) || math.IsInf(f, 0) || f+360 == f {
					return false
				}
				v.SetFloat(f + 360)
			default:
				return false
			}
			return true
		case "num-negate":
			switch v.Kind() {
			case reflect.Float32, reflect.Float64:
				f := v.Float()
				if f == 0 || math.IsNaN(f) {
					return false
				}
				v.SetFloat(-f)
			case reflect.Int, reflect.Int8, reflect.Int16, reflect.Int32, reflect.Int64:
				if v.Int() == 0 || v.Int() == math.MinInt64 || v.OverflowInt(-v.Int()) {
					return false
				}
				v.SetInt(-v.Int())
			default:
				return false
			}
			return true
		case "num+1", "num-zero-toggle":
			switch v.Kind() {
			case reflect.Int, reflect.Int8, reflect.Int16, reflect.Int32, reflect.Int64:
				if kind == "num+1" {
					v.SetInt(v.Int() + 1)
				} else if v.Int() == 0 {
					v.SetInt(2)
				} else {
					v.SetInt(0)
				}
			case reflect.Uint, reflect.Uint8, reflect.Uint16, reflect.Uint32, reflect.Uint64:
				if kind == "num+1" {
					v.SetUint(v.Uint() + 1)
				} else if v.Uint() == 0 {
					v.SetUint(2)
				} else {
					v.SetUint(0)
				}
			case reflect.Float32, reflect.Float64:
				if kind == "num+1" {
					v.SetFloat(v.Float() + 1)
				} else if v.Float() == 0 {
					v.SetFloat(2)
				} else {
					v.SetFloat(0)
				}
			}
			return true
		}
		return false
	}
	if !strings.HasPrefix(target, path) {
		return false
	}
	switch v.Kind() {
	case reflect.Ptr:
		if v.IsNil() {
			return false
		}
		return applyMutation(v.Elem(), path+"->", target, kind, otherZone)
	case reflect.Slice:
		for i := 0; i < v.Len(); i++ {
			p := path + "[" + itoa(i) + "]"
			if target == p || strings.HasPrefix(target, p+".") || strings.HasPrefix(target, p+"->") {
				return applyMutation(v.Index(i), p, target, kind, otherZone)
			}
		}
	case reflect.Struct:
		if v.Type() == timeType {
			return false
		}
		for i := 0; i < v.NumField(); i++ {
			f := v.Type().Field(i)
			if !f.IsExported() {
				continue
			}
			p := path + "." + f.Name
			if target == p || strings.HasPrefix(target, p+".") || strings.HasPrefix(target, p+"->") || strings.HasPrefix(target, p+"[") {
				return applyMutation(v.Field(i), p, target, kind, otherZone)
			}
		}
	}
	return false
}
