package mon

import (
	"fmt"
	"time"

	"github.com/jamespfennell/gtfs"

	"verifharness/canon"
	"verifharness/core"
	"verifharness/sgen"
)

func init() {
	core.Register(&core.Property{
		ID:    "C11",
		Level: "exploration",
		Rule: "each case draws 0-8 calendar services and 0-14 calendar_dates rows (calendar-only, dates-only and combined services; exception dates before/inside/after the range, duplicates, types 1/2 and ignored type 3/0; rows of different services interleaved), injects invalid rows (unparseable or blank dates, blank service id, blank exception type) that must not create or alter a service, and parses the feed once per first-agency zone for 6 zones drawn from 14 (UTC, unloadable, DST zones, midnight-switching zones) with a second agency in another zone; " +
			"distinct_nontrivial counts distinct (calendar rows, exception rows, kinds of services present, zone) signatures with at least one service that has both a calendar row and an exception",
		Cases: func(tier string) int {
			if tier == "thorough" {
				return 200000
			}
			return 4000
		},
		Run: runC11,
		Assumptions: []string{
			"reference merge written from the statement; instants by the zone-aware midnight oracle (days without a unique local midnight are generated, skipped and counted)",
			"service order is not asserted here (C06)",
		},
	})
}

func runC11(c *core.Ctx) {
	r := c.R
	m := sgen.Gen(r, sgen.Size{Agencies: 2, Routes: 2, Stops: 3, Transfers: 0, Calendars: 8, CalDates: 1, Shapes: 0, ShapePtsPer: 1, Trips: 6, Freqs: 0, StopTimesPer: 2})
	// richer exception rows than the generic generator
	m.CalDates = nil
	var ids []string
	for _, cal := range m.Calendar {
		ids = append(ids, cal.Service)
	}
	nOnly := r.Intn(4)
	for i := 0; i < nOnly; i++ {
		ids = append(ids, fmt.Sprintf("only%d%s", i, core.Pick(r, []string{"", " ", ",x", "é"})))
	}
	if len(ids) == 0 {
		ids = append(ids, "only")
	}
	n := r.Intn(15)
	if len(m.Calendar) == 0 && n == 0 {
		n = 1
	}
	dateNear := func(cal *sgen.Calendar) sgen.Date {
		switch r.Intn(5) {
		case 0:
			return cal.Start
		case 1:
			return cal.End
		case 2:
			return sgen.Date{Y: cal.Start.Y - 1, M: 1 + r.Intn(12), D: 1 + r.Intn(28)}
		case 3:
			return sgen.Date{Y: cal.End.Y + 1, M: 1 + r.Intn(12), D: 1 + r.Intn(28)}
		}
		return sgen.Date{Y: cal.Start.Y + r.Intn(cal.End.Y-cal.Start.Y+1), M: 1 + r.Intn(12), D: 1 + r.Intn(28)}
	}
	for i := 0; i < n; i++ {
		sid := core.Pick(r, ids)
		var d sgen.Date
		var calOf *sgen.Calendar
		for k := range m.Calendar {
			if m.Calendar[k].Service == sid {
				calOf = &m.Calendar[k]
			}
		}
		switch {
		case r.Chance(1, 8):
			d = core.Pick(r, sgen.BoundaryDates) // leap days, century leap day, ends of years, epoch edges
		case calOf != nil:
			d = dateNear(calOf)
		case r.Chance(1, 8):
			d = core.Pick(r, sgen.KnownMidnightSwitchDates)
		default:
			d = sgen.Date{Y: 2000 + r.Intn(40), M: 1 + r.Intn(12), D: 1 + r.Intn(28)}
		}
		typ := 1 + r.Intn(2)
		if r.Chance(1, 8) {
			typ = core.Pick(r, []int{3, 0, 9})
		}
		m.CalDates = append(m.CalDates, sgen.CalDate{Service: sid, Date: d, Type: typ})
		if r.Chance(1, 6) { // duplicate row
			m.CalDates = append(m.CalDates, sgen.CalDate{Service: sid, Date: d, Type: typ})
		}
	}
	// trips may only use services that exist in the expected result
	valid := map[string]bool{}
	for _, cal := range m.Calendar {
		valid[cal.Service] = true
	}
	for _, e := range m.CalDates {
		if e.Type == 1 || e.Type == 2 {
			valid[e.Service] = true
		}
	}
	var validIDs []string
	for _, id := range ids {
		if valid[id] {
			validIDs = append(validIDs, id)
		}
	}
	if len(validIDs) == 0 {
		m.CalDates = append(m.CalDates, sgen.CalDate{Service: ids[0], Date: sgen.Date{Y: 2020, M: 5, D: 17}, Type: 1})
		validIDs = []string{ids[0]}
	}
	for i := range m.Trips {
		m.Trips[i].Service = core.Pick(r, validIDs)
	}
	kinds := 0
	both := false
	hasCal := map[string]bool{}
	for _, cal := range m.Calendar {
		hasCal[cal.Service] = true
		kinds |= 1
	}
	for _, e := range m.CalDates {
		if e.Type != 1 && e.Type != 2 {
			kinds |= 8
			continue
		}
		if hasCal[e.Service] {
			both = true
			kinds |= 2
		} else {
			kinds |= 4
		}
	}
	if len(m.Agencies) < 2 {
		m.Agencies = append(m.Agencies, sgen.Agency{ID: "second-agency", Name: "Second", URL: "http://second", TZ: "Asia/Tokyo"})
	}
	// calendar.txt / calendar_dates.txt may be missing from the archive altogether when they have no rows
	m.OmitEmptyOptional = r.Bool()

	zones := r.Perm(len(sgen.Zones))[:6]
	for _, zi := range zones {
		m.Agencies[0].TZ = sgen.Zones[zi]
		m.Agencies[1].TZ = sgen.Zones[(zi+3)%len(sgen.Zones)]
		if both {
			c.Shape(fmt.Sprintf("cal%d exc%d kinds%d zone=%s", len(m.Calendar), len(m.CalDates), kinds, m.Agencies[0].TZ))
		}
		c.Feature("zone:" + m.Agencies[0].TZ)
		ref := sgen.Ref(m, false)
		if ref.SkippedDates > 0 {
			c.S.Skipped["dates-without-unique-local-midnight"] += int64(ref.SkippedDates)
		}
		arch := sgen.Tables(m)
		// invalid rows: must neither create nor alter a service
		if cd := arch.Table("calendar_dates.txt"); cd != nil {
			k := r.Intn(4)
			for j := 0; j < k; j++ {
				sid := core.Pick(r, append(ids, "ghost-service"))
				bad := core.Pick(r, [][]string{
					{sid, "2020-01-01", "1"}, {sid, "20201301", "1"}, {sid, "", "2"}, {"", "20200101", "1"}, {sid, "20200101", ""}, {sid, "2020011", "2"}, {sid, "garbage", "1"},
				})
				cd.InsertRow(r.Intn(len(cd.Rows)+1), bad)
				c.Feature("invalid-calendar_dates-row")
			}
		}
		if cal := arch.Table("calendar.txt"); cal != nil && r.Chance(1, 3) {
			bad := core.Pick(r, [][]string{
				{"ghost-cal", "1", "1", "1", "1", "1", "0", "0", "2020-01-01", "20201231"},
				{"ghost-cal", "1", "1", "1", "1", "1", "0", "0", "20200101", ""},
				{"", "1", "1", "1", "1", "1", "0", "0", "20200101", "20201231"},
				{"ghost-cal", "1", "", "1", "1", "1", "0", "0", "20200101", "20201231"},
			})
			cal.InsertRow(r.Intn(len(cal.Rows)+1), bad)
			c.Feature("invalid-calendar-row")
		}
		b := sgen.Encode(arch, &sgen.Presentation{Plain: true})
		got, err := gtfs.ParseStatic(b, gtfs.ParseStaticOptions{})
		c.Eval(1)
		if err != nil {
			c.Violationf("C11|parse-error", map[string]any{"error": err.Error()}, "ParseStatic rejected the feed: %v", err)
			continue
		}
		// invariants on the real result
		seen := map[string]bool{}
		for i := range got.Services {
			s := &got.Services[i]
			c.Cmp(1)
			if seen[s.Id] {
				c.Violationf("C11|duplicate-service", map[string]any{"service": s.Id}, "two Services with id %q", s.Id)
			}
			seen[s.Id] = true
			if ref.UnassertedServices[s.Id] {
				continue
			}
			for _, list := range [][]time.Time{s.AddedDates, s.RemovedDates} {
				for _, t := range list {
					c.Cmp(1)
					if t.Before(s.StartDate) || s.EndDate.Before(t) {
						c.Violationf("C11|range-does-not-cover-exception", map[string]any{"service": s.Id, "date": t.String(), "start": s.StartDate.String(), "end": s.EndDate.String()},
							"service %q: exception date %s outside [%s, %s]", s.Id, t, s.StartDate, s.EndDate)
					}
				}
			}
		}
		ref.Neutralize(ref.Static, m)
		ref.Neutralize(got, m)
		o1 := canon.StaticOpts(ref.Static, false, false)
		o2 := canon.StaticOpts(got, false, false)
		wantFull := canon.Dump(ref.Static, o1)
		haveFull := canon.Dump(got, o2)
		c.Cmp(1)
		if path, desc, differ := diffPath(wantFull, haveFull); differ {
			c.Violationf("C11|mismatch|"+path, map[string]any{"zone": m.Agencies[0].TZ, "diff_expected_vs_parsed": desc,
				"calendar": arch.Table("calendar.txt"), "calendar_dates": arch.Table("calendar_dates.txt")},
				"services differ from the reference merge (zone %s; expected ≠ parsed): %s", m.Agencies[0].TZ, desc)
		}
		if c.WantSample() {
			c.Sample(map[string]any{"zone": m.Agencies[0].TZ, "calendar": arch.Table("calendar.txt"), "calendar_dates": arch.Table("calendar_dates.txt"), "services_parsed": len(got.Services)})
		}
	}
}
