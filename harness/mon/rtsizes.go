package mon

import (
	"fmt"

	"verifharness/core"
	"verifharness/rgen"
)

type rtSizeCase struct {
	name string
	opts rgen.Opts
}

// rtSizeCases sweeps every collection size of a realtime message over the
// threshold list (2^k, 3*2^k, 10^k, each -1/0/+1): randomly drawn small messages
// never reach a "more than 256 items" branch.
func rtSizeCases(tier string) []rtSizeCase {
	max := 1100
	if tier == "thorough" {
		max = 4200
	}
	var out []rtSizeCase
	for _, n := range core.Thresholds(max) {
		if n < 8 {
			continue
		}
		base := rgen.Opts{MaxTrips: 4, MaxVehs: 3, MaxAlerts: 2, MaxIDLess: 2, PassThroughSelectorsOnly: true}
		a := base
		a.ExactTrips, a.TripUpdateChancePct, a.ExactAlerts, a.ExactSelectors = n, 10, 2, n
		out = append(out, rtSizeCase{fmt.Sprintf("trips-mostly-known-through-one-alert=%d", n), a})
		b := base
		b.ExactTrips = n
		out = append(out, rtSizeCase{fmt.Sprintf("trips-with-own-update=%d", n), b})
		v := base
		v.ExactVehs, v.ExactTrips = n, n/2+1
		out = append(out, rtSizeCase{fmt.Sprintf("id-bearing-vehicles=%d", n), v})
		i := base
		i.ExactIDLess, i.ExactTrips = n, n/4+5
		out = append(out, rtSizeCase{fmt.Sprintf("id-less-vehicles=%d", n), i})
		al := base
		al.ExactAlerts = n
		out = append(out, rtSizeCase{fmt.Sprintf("alerts=%d", n), al})
		st := base
		st.ExactStopTimeUpdates, st.ExactTrips = n, 2
		out = append(out, rtSizeCase{fmt.Sprintf("stop-time-updates-of-one-trip=%d", n), st})
	}
	return out
}
