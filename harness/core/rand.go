// Package core is the property-independent part of the monitoring harness:
// deterministic PRNG streams, per-case context, mergeable statistics, the
// property registry and the parent/child process protocol.
package core

import (
	"hash/fnv"
	"math"
)

// Rand is a small splitmix64-based PRNG. Its output is a pure function of the
// seed and does not depend on the Go version (unlike map iteration order, which
// is what several monitors are looking at).
type Rand struct{ s uint64 }

// NewRand returns the stream for (seed, property, stream name, index).
func NewRand(seed int64, prop, stream string, index int) *Rand {
	h := fnv.New64a()
	h.Write([]byte(prop))
	h.Write([]byte{0})
	h.Write([]byte(stream))
	x := h.Sum64() ^ uint64(seed)*0x9E3779B97F4A7C15 ^ uint64(index)*0xD6E8FEB86659FD93
	r := &Rand{s: x}
	r.Uint64()
	r.Uint64()
	return r
}

func (r *Rand) Uint64() uint64 {
	r.s += 0x9E3779B97F4A7C15
	z := r.s
	z = (z ^ (z >> 30)) * 0xBF58476D1CE4E5B9
	z = (z ^ (z >> 27)) * 0x94D049BB133111EB
	return z ^ (z >> 31)
}

// Fork returns an independent stream derived from this one.
func (r *Rand) Fork() *Rand { return &Rand{s: r.Uint64() ^ 0xA5A5A5A5DEADBEEF} }

// Intn returns a value in [0,n). n must be > 0.
func (r *Rand) Intn(n int) int {
	if n <= 0 {
		panic("Intn: n <= 0")
	}
	return int(r.Uint64() % uint64(n))
}

// Range returns a value in [lo,hi].
func (r *Rand) Range(lo, hi int) int {
	if hi < lo {
		lo, hi = hi, lo
	}
	return lo + r.Intn(hi-lo+1)
}

func (r *Rand) Bool() bool { return r.Uint64()&1 == 1 }

// Chance is true with probability num/den.
func (r *Rand) Chance(num, den int) bool { return r.Intn(den) < num }

func (r *Rand) Float64() float64 { return float64(r.Uint64()>>11) / (1 << 53) }

func (r *Rand) Perm(n int) []int {
	p := make([]int, n)
	for i := range p {
		p[i] = i
	}
	r.Shuffle(n, func(i, j int) { p[i], p[j] = p[j], p[i] })
	return p
}

func (r *Rand) Shuffle(n int, swap func(i, j int)) {
	for i := n - 1; i > 0; i-- {
		j := r.Intn(i + 1)
		swap(i, j)
	}
}

// Pick returns one element of xs.
func Pick[T any](r *Rand, xs []T) T { return xs[r.Intn(len(xs))] }

// Int64Class draws an int64 from boundary-heavy classes.
func (r *Rand) Int64Class() int64 {
	switch r.Intn(10) {
	case 0:
		return 0
	case 1:
		return 1
	case 2:
		return -1
	case 3:
		return math.MaxInt32
	case 4:
		return math.MinInt32
	case 5:
		return int64(math.MaxInt32) + int64(r.Intn(3))
	case 6:
		return int64(math.MaxUint32) + int64(r.Intn(3)) - 1
	default:
		return int64(r.Uint64()%2000000000) - 100000
	}
}

// HashString is the 64-bit FNV-1a hash used for shape signatures.
func HashString(s string) uint64 {
	h := fnv.New64a()
	h.Write([]byte(s))
	return h.Sum64()
}

// Thresholds returns the sizes <= max at which implementations typically change
// behaviour: 2^k-1, 2^k, 2^k+1; 3*2^k-1, 3*2^k, 3*2^k+1; 10^k-1, 10^k, 10^k+1; 5*10^k,
// plus 0..3. Workloads sweep every collection size over this list because
// randomly drawn small inputs never reach a "more than 256 items" branch.
func Thresholds(max int) []int {
	set := map[int]bool{0: true, 1: true, 2: true, 3: true}
	add := func(v int) {
		for _, d := range []int{-1, 0, 1} {
			if v+d >= 0 && v+d <= max {
				set[v+d] = true
			}
		}
	}
	for p := 2; p <= max+1 && p > 0; p *= 2 {
		add(p)
		add(3 * p / 2 * 1)
	}
	for p := 10; p <= max+1 && p > 0; p *= 10 {
		add(p)
		if 5*p <= max {
			set[5*p] = true
		}
	}
	var out []int
	for v := range set {
		out = append(out, v)
	}
	for i := 1; i < len(out); i++ {
		for j := i; j > 0 && out[j] < out[j-1]; j-- {
			out[j], out[j-1] = out[j-1], out[j]
		}
	}
	return out
}
