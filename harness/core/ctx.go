package core

import (
	"encoding/json"
	"fmt"
	"sort"
	"strings"
)

// Violation is one observed refutation of a property.
type Violation struct {
	Property  string `json:"property"`
	Signature string `json:"signature"` // stable key identifying the specific failure (used by known_findings.jsonl)
	What      string `json:"what"`      // one-line human description
	Tier      string `json:"tier"`
	Seed      int64  `json:"seed"`
	Index     int    `json:"index"`
	Replica   int    `json:"replica"`
	Detail    any    `json:"detail,omitempty"` // input / expected / observed / stack
}

// Stats is everything a set of cases observed; it is mergeable so that shards
// can be summed by the parent.
type Stats struct {
	Cases       int64             `json:"cases"`
	Evaluations int64             `json:"evaluations"`
	Comparisons int64             `json:"comparisons"`
	Features    map[string]int64  `json:"features"`
	Observed    map[string]int64  `json:"observed"`
	Skipped     map[string]int64  `json:"skipped"`
	Shapes      map[uint64]bool   `json:"-"`
	ShapeList   []uint64          `json:"shapes"`
	Samples     []json.RawMessage `json:"samples"`
	Violations  []Violation       `json:"violations"`
	ViolCount   map[string]int64  `json:"viol_count"` // per signature, uncapped
	Digests     map[string]string `json:"digests,omitempty"`
	Notes       map[string]string `json:"notes,omitempty"`
}

func NewStats() *Stats {
	return &Stats{
		Features:  map[string]int64{},
		Observed:  map[string]int64{},
		Skipped:   map[string]int64{},
		Shapes:    map[uint64]bool{},
		ViolCount: map[string]int64{},
		Digests:   map[string]string{},
		Notes:     map[string]string{},
	}
}

const maxSamples = 4
const maxViolationsPerSig = 2
const maxViolations = 60

func (s *Stats) Merge(o *Stats) {
	s.Cases += o.Cases
	s.Evaluations += o.Evaluations
	s.Comparisons += o.Comparisons
	for k, v := range o.Features {
		s.Features[k] += v
	}
	for k, v := range o.Observed {
		if strings.HasPrefix(k, "max_") {
			if v > s.Observed[k] {
				s.Observed[k] = v
			}
			continue
		}
		s.Observed[k] += v
	}
	for k, v := range o.Skipped {
		s.Skipped[k] += v
	}
	for k := range o.Shapes {
		s.Shapes[k] = true
	}
	for _, k := range o.ShapeList {
		s.Shapes[k] = true
	}
	for _, x := range o.Samples {
		if len(s.Samples) < maxSamples {
			s.Samples = append(s.Samples, x)
		}
	}
	for _, v := range o.Violations {
		s.addViolation(v, false)
	}
	for k, v := range o.ViolCount {
		s.ViolCount[k] += v
	}
	for k, v := range o.Digests {
		s.Digests[k] = v
	}
	for k, v := range o.Notes {
		s.Notes[k] = v
	}
}

func (s *Stats) addViolation(v Violation, count bool) {
	if count {
		s.ViolCount[v.Signature]++
	}
	n := 0
	for _, x := range s.Violations {
		if x.Signature == v.Signature {
			n++
		}
	}
	if n >= maxViolationsPerSig || len(s.Violations) >= maxViolations {
		return
	}
	s.Violations = append(s.Violations, v)
}

// Finish prepares the stats for serialisation.
func (s *Stats) Finish() {
	s.ShapeList = s.ShapeList[:0]
	for k := range s.Shapes {
		s.ShapeList = append(s.ShapeList, k)
	}
	sort.Slice(s.ShapeList, func(i, j int) bool { return s.ShapeList[i] < s.ShapeList[j] })
}

// Ctx is handed to a property's Run function for one case.
type Ctx struct {
	Prop    string
	Tier    string
	Seed    int64
	Index   int
	Replica int
	R       *Rand
	S       *Stats
	// Replay is true when a single case is re-run from a replay file; monitors
	// may print more detail.
	Replay bool
	// RunDir is a scratch directory private to this run (under the run dir
	// created by the parent).
	RunDir string
	// Shard identifies the child process.
	Shard int
}

func (c *Ctx) Thorough() bool { return c.Tier == "thorough" }

// Rand returns an additional named stream for this case.
func (c *Ctx) Rand(stream string) *Rand { return NewRand(c.Seed, c.Prop, stream, c.Index) }

func (c *Ctx) Eval(n int)               { c.S.Evaluations += int64(n) }
func (c *Ctx) Cmp(n int)                { c.S.Comparisons += int64(n) }
func (c *Ctx) Feature(name string)      { c.S.Features[name]++ }
func (c *Ctx) FeatureN(n string, k int) { c.S.Features[n] += int64(k) }
func (c *Ctx) Observe(name string, n int) {
	c.S.Observed[name] += int64(n)
}
func (c *Ctx) ObserveMax(name string, n int) {
	if int64(n) > c.S.Observed[name] {
		c.S.Observed[name] = int64(n)
	}
}
func (c *Ctx) Skip(name string)       { c.S.Skipped[name]++ }
func (c *Ctx) Shape(sig string)       { c.S.Shapes[HashString(sig)] = true }
func (c *Ctx) Digest(key, val string) { c.S.Digests[key] = val }
func (c *Ctx) Note(key, val string)   { c.S.Notes[key] = val }
func (c *Ctx) WantSample() bool       { return len(c.S.Samples) < maxSamples }

// Sample records one of the actual cases (first few only).
func (c *Ctx) Sample(v any) {
	if len(c.S.Samples) >= maxSamples {
		return
	}
	b, err := json.Marshal(v)
	if err != nil {
		b, _ = json.Marshal(fmt.Sprintf("%+v", v))
	}
	if len(b) > 6000 {
		b, _ = json.Marshal(string(b[:6000]) + "…(truncated)")
	}
	c.S.Samples = append(c.S.Samples, b)
}

// Violation records a refutation. sig must be stable across runs and seeds for
// the same underlying failure.
func (c *Ctx) Violation(sig, what string, detail any) {
	c.S.addViolation(Violation{
		Property: c.Prop, Signature: sig, What: what, Tier: c.Tier, Seed: c.Seed,
		Index: c.Index, Replica: c.Replica, Detail: detail,
	}, true)
}

// Violationf is Violation with a formatted description.
func (c *Ctx) Violationf(sig string, detail any, format string, args ...any) {
	c.Violation(sig, fmt.Sprintf(format, args...), detail)
}

// Property describes one monitored property.
type Property struct {
	ID    string
	Level string // exploration | fault_enumeration
	Rule  string // how cases are generated and what makes one distinct/non-trivial
	// Cases returns the number of cases for the tier (a pure function of the tier).
	Cases func(tier string) int
	// Run executes case c.Index.
	Run func(c *Ctx)
	// Replicas is the number of independent processes groups that each run the
	// whole case list (digests are compared across replicas). 0 means 1.
	Replicas func(tier string) int
	// HangCPUSeconds > 0 makes "a case used more than this many CPU-seconds" a
	// suspected non-termination that is re-run alone under a 60 CPU-second budget
	// (C05). When 0, a very generous guard (900 CPU-s) only protects the harness
	// and its firing is inconclusive, never a violation.
	HangCPUSeconds float64
	// ReplicaOrders makes replica r > 0 run its cases in a different order than
	// replica 0 (reversed for odd r), so that anything that survives a call shows
	// up as a cross-replica digest difference.
	ReplicaOrders bool
	// AltBinLastReplica names a second child binary (e.g. built with another Go
	// toolchain); when it exists in the bin directory the last replica runs it.
	AltBinLastReplica string
	// Race requests the -race build of the child.
	Race bool
	// ChildEnv adds environment variables for children.
	ChildEnv func(tier, runDir string) []string
	// MaxShards caps the number of child processes (0 = number of CPUs).
	MaxShards int
	// Post runs in the parent after all children finished (offline checkers,
	// cross-replica comparison, external tools).
	Post func(p *ParentCtx)
	// Assumptions for the evidence file.
	Assumptions []string
	// Exhaustive is set when the whole claim is an enumerated finite space.
	Exhaustive bool
}

var registry = map[string]*Property{}

func Register(p *Property) {
	if _, dup := registry[p.ID]; dup {
		panic("duplicate property " + p.ID)
	}
	registry[p.ID] = p
}

func Lookup(id string) *Property { return registry[id] }

func AllIDs() []string {
	var ids []string
	for id := range registry {
		ids = append(ids, id)
	}
	sort.Strings(ids)
	return ids
}

// Trunc shortens long strings for messages.
func Trunc(s string, n int) string {
	if len(s) <= n {
		return s
	}
	return s[:n] + "…"
}

// FirstDiff returns a short description of the first differing line of two
// line-oriented dumps.
func FirstDiff(a, b string) string {
	la := strings.Split(a, "\n")
	lb := strings.Split(b, "\n")
	for i := 0; i < len(la) || i < len(lb); i++ {
		var x, y string
		if i < len(la) {
			x = la[i]
		} else {
			x = "<end>"
		}
		if i < len(lb) {
			y = lb[i]
		} else {
			y = "<end>"
		}
		if x != y {
			return fmt.Sprintf("line %d: %s  ≠  %s", i+1, Trunc(x, 300), Trunc(y, 300))
		}
	}
	return "equal"
}
