package core

import (
	"fmt"
	"syscall"
)

// ROBuf is a byte slice living in anonymous mmap'ed pages that have been set to
// PROT_READ: any write through it faults. With debug.SetPanicOnFault(true) on the
// accessing goroutine the fault is delivered as a recoverable panic carrying the
// stack of the writer.
type ROBuf struct {
	mem []byte
	B   []byte
}

// NewROBuf copies b into read-only pages.
func NewROBuf(b []byte) (*ROBuf, error) {
	size := len(b)
	if size == 0 {
		size = 1
	}
	mem, err := syscall.Mmap(-1, 0, size, syscall.PROT_READ|syscall.PROT_WRITE, syscall.MAP_ANON|syscall.MAP_PRIVATE)
	if err != nil {
		return nil, fmt.Errorf("mmap: %w", err)
	}
	copy(mem, b)
	if err := syscall.Mprotect(mem, syscall.PROT_READ); err != nil {
		syscall.Munmap(mem)
		return nil, fmt.Errorf("mprotect: %w", err)
	}
	return &ROBuf{mem: mem, B: mem[:len(b):len(b)]}, nil
}

// Free unmaps the pages; the slice must not be used afterwards.
func (r *ROBuf) Free() {
	if r.mem != nil {
		syscall.Munmap(r.mem)
		r.mem, r.B = nil, nil
	}
}
