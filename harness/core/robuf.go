package core

import (
	"fmt"
	"sync"
	"syscall"
	"unsafe"
)

var (
	roMu     sync.Mutex
	roRanges = map[uintptr]uintptr{} // start -> end of every live read-only buffer
)

// FaultInROBuf reports whether a recovered panic value is a memory fault (debug.SetPanicOnFault) whose
// address lies inside a live read-only input buffer, i.e. the code under test wrote to its input.
func FaultInROBuf(r any) bool {
	a, ok := r.(interface{ Addr() uintptr })
	if !ok {
		return false
	}
	addr := a.Addr()
	roMu.Lock()
	defer roMu.Unlock()
	for s, e := range roRanges {
		if addr >= s && addr < e {
			return true
		}
	}
	return false
}

// ROBuf is a byte slice living in anonymous mmap'ed pages that have been set to
// PROT_READ: any write through it faults. With debug.SetPanicOnFault(true) on the
// accessing goroutine the fault is delivered as a recoverable panic carrying the
// stack of the writer.
type ROBuf struct {
	mem []byte
	B   []byte
}

// NewROBuf copies b into read-only pages.
func NewROBuf(b []byte) (*ROBuf, error) {
	size := len(b)
	if size == 0 {
		size = 1
	}
	mem, err := syscall.Mmap(-1, 0, size, syscall.PROT_READ|syscall.PROT_WRITE, syscall.MAP_ANON|syscall.MAP_PRIVATE)
	if err != nil {
		return nil, fmt.Errorf("mmap: %w", err)
	}
	copy(mem, b)
	if err := syscall.Mprotect(mem, syscall.PROT_READ); err != nil {
		syscall.Munmap(mem)
		return nil, fmt.Errorf("mprotect: %w", err)
	}
	start := uintptr(unsafe.Pointer(&mem[0]))
	roMu.Lock()
	roRanges[start] = start + uintptr(len(mem))
	roMu.Unlock()
	return &ROBuf{mem: mem, B: mem[:len(b):len(b)]}, nil
}

// Free unmaps the pages; the slice must not be used afterwards.
func (r *ROBuf) Free() {
	if r.mem != nil {
		roMu.Lock()
		delete(roRanges, uintptr(unsafe.Pointer(&r.mem[0])))
		roMu.Unlock()
		syscall.Munmap(r.mem)
		r.mem, r.B = nil, nil
	}
}
