package core

import "testing"

func TestThresholds(t *testing.T) {
	got := Thresholds(4200)
	want := map[int]bool{256: true, 257: true, 1000: true, 1001: true, 1024: true, 1025: true, 3072: true, 3073: true, 128: true, 129: true, 65: true}
	have := map[int]bool{}
	for _, v := range got {
		have[v] = true
	}
	for v := range want {
		if !have[v] {
			t.Errorf("missing %d in %v", v, got)
		}
	}
	t.Log(len(got), got)
}
