package core

import (
	"bufio"
	"bytes"
	"encoding/json"
	"fmt"
	"os"
	"os/exec"
	"path/filepath"
	"runtime"
	"sort"
	"strconv"
	"strings"
	"sync"
	"syscall"
	"time"
)

// ParentCtx is handed to a property's Post hook.
type ParentCtx struct {
	Prop     *Property
	Tier     string
	Seed     int64
	RunDir   string
	VerifDir string
	OutDir   string // where evidence and replays go (== VerifDir except for calibration runs)
	RepoDir  string
	BinDir   string // directory holding the freshly built binaries (vmon, vmon-race, …)
	S        *Stats // merged over all replicas
	Replica  []*Stats
}

func (p *ParentCtx) Violation(sig, what string, detail any) {
	p.S.addViolation(Violation{Property: p.Prop.ID, Signature: sig, What: what, Tier: p.Tier, Seed: p.Seed, Index: -1, Detail: detail}, true)
}
func (p *ParentCtx) Observe(name string, n int64) { p.S.Observed[name] += n }
func (p *ParentCtx) Thorough() bool               { return p.Tier == "thorough" }

// Finding is one line of known_findings.jsonl.
type Finding struct {
	Status    string `json:"status"` // known | fixed
	Property  string `json:"property"`
	Signature string `json:"signature"`
	What      string `json:"what"`
	Commit    string `json:"commit,omitempty"`
}

func loadFindings(path string) []Finding {
	f, err := os.Open(path)
	if err != nil {
		return nil
	}
	defer f.Close()
	var out []Finding
	sc := bufio.NewScanner(f)
	sc.Buffer(make([]byte, 1<<20), 1<<20)
	for sc.Scan() {
		line := strings.TrimSpace(sc.Text())
		if line == "" || strings.HasPrefix(line, "#") {
			continue
		}
		var x Finding
		if json.Unmarshal([]byte(line), &x) == nil {
			out = append(out, x)
		}
	}
	return out
}

type shardState struct {
	replica, shard int
	from           int
	skip           []int
	seg            int
	restarts       int
}

// ParentMain runs one check: `vmon parent <prop> <tier>`; returns the exit code.
// ChildZones are the TZ values child processes run under.
var ChildZones = []string{"Pacific/Chatham", "America/St_Johns", "UTC", "Asia/Kathmandu"}

func ParentMain(propID, tier string, replayFile string) int {
	start := time.Now()
	p := Lookup(propID)
	if p == nil {
		fmt.Println("unknown property", propID)
		return 2
	}
	verifDir := envOr("VERIF_DIR", "/verif")
	repoDir := envOr("VERIF_REPO", "/repo")
	seed := int64(1)
	if s := os.Getenv("VERIF_SEED"); s != "" {
		if v, err := strconv.ParseInt(s, 10, 64); err == nil {
			seed = v
		}
	}
	self, _ := os.Executable()
	binDir := filepath.Dir(self)
	childBin := self
	if p.Race {
		childBin = filepath.Join(binDir, "vmon-race")
	}
	// VERIF_OUT redirects everything a run writes (run dir, evidence, replays); it is
	// set by ./check for calibration runs against a scratch copy so that they never
	// touch the evidence of the real tree.
	outDir := envOr("VERIF_OUT", verifDir)
	runDir := filepath.Join(outDir, ".run", fmt.Sprintf("%s-%s", propID, tier))
	os.RemoveAll(runDir)
	if err := os.MkdirAll(runDir, 0755); err != nil {
		fmt.Println("cannot create run dir:", err)
		return 2
	}

	if replayFile != "" {
		return replayMain(p, childBin, replayFile, runDir)
	}

	n := p.Cases(tier)
	replicas := 1
	if p.Replicas != nil {
		if r := p.Replicas(tier); r > 1 {
			replicas = r
		}
	}
	nshards := runtime.NumCPU()
	if nshards > 16 {
		nshards = 16
	}
	if p.MaxShards > 0 && nshards > p.MaxShards {
		nshards = p.MaxShards
	}
	if nshards > n {
		nshards = n
	}
	if nshards < 1 {
		nshards = 1
	}
	wallLimit := 12 * time.Minute
	if tier == "thorough" {
		wallLimit = 75 * time.Minute
	}
	deadline := start.Add(wallLimit)

	var extraEnv []string
	if p.ChildEnv != nil {
		extraEnv = p.ChildEnv(tier, runDir)
	}

	total := NewStats()
	perReplica := make([]*Stats, replicas)
	for i := range perReplica {
		perReplica[i] = NewStats()
	}
	var mu sync.Mutex
	inconclusive := []string{}
	addInc := func(s string) {
		mu.Lock()
		inconclusive = append(inconclusive, s)
		mu.Unlock()
	}

	altBin := ""
	if p.AltBinLastReplica != "" && replicas > 1 {
		cand := filepath.Join(binDir, p.AltBinLastReplica)
		if st, err := os.Stat(cand); err == nil && !st.IsDir() {
			altBin = cand
		}
	}
	runChild := func(a ChildArgs, timeout time.Duration, hangCPU int) (exit int, stderr string, timedOut bool) {
		b, _ := json.Marshal(a)
		bin := childBin
		if altBin != "" && a.Replica == replicas-1 {
			bin = altBin
		}
		cmd := exec.Command(bin, "child", string(b))
		cmd.Env = append(os.Environ(), extraEnv...)
		// the process's own time zone is part of the environment, not of "bytes and options": children run under different TZ
		// values (replicas of one case list under different ones), so that a dependence on time.Local shows up
		cmd.Env = append(cmd.Env, "TZ="+ChildZones[(a.Replica*3+a.Shard)%len(ChildZones)])
		if hangCPU > 0 {
			cmd.Env = append(cmd.Env, fmt.Sprintf("VMON_HANG_CPU=%d", hangCPU))
		}
		var eb bytes.Buffer
		cmd.Stderr = &limitedWriter{buf: &eb, max: 1 << 20}
		cmd.Stdout = nil
		if err := cmd.Start(); err != nil {
			return 2, err.Error(), false
		}
		done := make(chan error, 1)
		go func() { done <- cmd.Wait() }()
		select {
		case err := <-done:
			if err == nil {
				return 0, eb.String(), false
			}
			if ee, ok := err.(*exec.ExitError); ok {
				ws := ee.Sys().(syscall.WaitStatus)
				if ws.Signaled() {
					return 128 + int(ws.Signal()), eb.String(), false
				}
				return ws.ExitStatus(), eb.String(), false
			}
			return 2, err.Error(), false
		case <-time.After(timeout):
			cmd.Process.Signal(syscall.SIGQUIT)
			select {
			case <-done:
			case <-time.After(5 * time.Second):
				cmd.Process.Kill()
				<-done
			}
			return -1, eb.String(), true
		}
	}

	readCk := func(a ChildArgs) *Checkpoint {
		tag := fmt.Sprintf("%d-%d-%d", a.Replica, a.Shard, a.Seg)
		if a.Only >= 0 {
			tag = fmt.Sprintf("only-%d-%d", a.Replica, a.Only)
		}
		b, err := os.ReadFile(filepath.Join(runDir, "stats-"+tag+".json"))
		if err != nil {
			return nil
		}
		var ck Checkpoint
		if json.Unmarshal(b, &ck) != nil {
			return nil
		}
		return &ck
	}

	merge := func(replica int, s *Stats) {
		if s == nil {
			return
		}
		mu.Lock()
		total.Merge(s)
		perReplica[replica].Merge(s)
		mu.Unlock()
	}

	var wg sync.WaitGroup
	sem := make(chan struct{}, runtime.NumCPU())
	for r := 0; r < replicas; r++ {
		for s := 0; s < nshards; s++ {
			wg.Add(1)
			go func(st shardState) {
				defer wg.Done()
				sem <- struct{}{}
				defer func() { <-sem }()
				for {
					if time.Now().After(deadline) {
						addInc("wall-clock watchdog")
						return
					}
					a := ChildArgs{Prop: propID, Tier: tier, Seed: seed, Shard: st.shard, NShards: nshards,
						Replica: st.replica, From: st.from, Skip: st.skip, Only: -1, Seg: st.seg, RunDir: runDir}
					exit, stderr, timedOut := runChild(a, time.Until(deadline), 0)
					ck := readCk(a)
					if ck != nil {
						merge(st.replica, ck.Stats)
					}
					if timedOut {
						addInc("wall-clock watchdog")
						os.WriteFile(filepath.Join(runDir, fmt.Sprintf("timeout-%d-%d.stderr", st.replica, st.shard)), []byte(stderr), 0644)
						return
					}
					if exit == 0 && ck != nil && ck.Done {
						return
					}
					// The child died. Find the case it was running.
					idx := -1
					if b, err := os.ReadFile(filepath.Join(runDir, fmt.Sprintf("hb-%d-%d", st.replica, st.shard))); err == nil {
						if v, err := strconv.Atoi(strings.TrimSpace(string(b))); err == nil {
							idx = v
						}
					}
					if idx < 0 {
						addInc(fmt.Sprintf("child replica=%d shard=%d exited %d before its first case: %s", st.replica, st.shard, exit, Trunc(stderr, 500)))
						return
					}
					if strings.Contains(stderr, "fatal error: concurrent map") {
						// Timing dependent by nature: the original crash dump is the evidence, no reproduction is demanded.
						fatal, stack := splitFatal(stderr)
						sig, _ := ClassifyStack(fatal, stack)
						mu.Lock()
						total.addViolation(Violation{Property: propID, Signature: sig, What: "process died: " + Trunc(fatal, 200), Tier: tier, Seed: seed,
							Index: idx, Replica: st.replica, Detail: map[string]any{"exit": exit, "stderr": Trunc(lastLines(stderr, 80), 8000)}}, true)
						mu.Unlock()
						st.skip = append(st.skip, idx)
						if ck != nil && ck.Next > st.from {
							st.from = ck.Next
						}
						st.seg++
						st.restarts++
						if st.restarts > 40 {
							return
						}
						continue
					}
					if exit == ExitHang && p.HangCPUSeconds == 0 {
						addInc(fmt.Sprintf("case %d exceeded the harness CPU guard (900 CPU-s); no termination verdict is claimed by this property", idx))
						return
					}
					// Confirm by re-running that case alone in a fresh process.
					ca := a
					ca.Only = idx
					cpu := 0
					if exit == ExitHang {
						cpu = 60 // CPU-seconds the case gets in a process of its own
					}
					cexit, cstderr, ctimed := runChild(ca, 5*time.Minute, cpu)
					cck := readCk(ca)
					switch {
					case ctimed:
						addInc(fmt.Sprintf("case %d: confirmation run hit the wall-clock limit", idx))
					case cexit == 0:
						if exit == ExitHang {
							// finished within the CPU budget when run alone: slow, not hung
							if cck != nil {
								merge(st.replica, cck.Stats)
							}
							mu.Lock()
							total.Observed["slow_cases_rerun_alone"]++
							mu.Unlock()
						} else {
							if cck != nil {
								merge(st.replica, cck.Stats)
							}
							addInc(fmt.Sprintf("case %d: child died (exit %d) but the crash did not reproduce alone: %s", idx, exit, Trunc(lastLines(stderr, 12), 1500)))
						}
					default:
						// died again: a crash or a non-termination verdict
						var sig, what string
						if exit == ExitHang && (cexit == 128+int(syscall.SIGKILL) || cexit == 128+int(syscall.SIGXCPU) || cexit == ExitHang) {
							sig = "hang|cpu-budget-exceeded"
							what = fmt.Sprintf("case did not return within 60 CPU-seconds in a process of its own (exit %d)", cexit)
							if note := hangWhere(cstderr + stderr); note != "" {
								sig = "hang|" + note
							}
						} else {
							fatal, stack := splitFatal(cstderr)
							s2, inLib := ClassifyStack(fatal, stack)
							sig = s2
							what = "process died: " + Trunc(fatal, 200)
							if !inLib {
								addInc(fmt.Sprintf("case %d: harness crash %s: %s", idx, sig, Trunc(fatal, 300)))
								sig = ""
							}
						}
						if sig != "" {
							mu.Lock()
							total.addViolation(Violation{Property: propID, Signature: sig, What: what, Tier: tier, Seed: seed,
								Index: idx, Replica: st.replica, Detail: map[string]any{"exit": cexit, "stderr": Trunc(lastLines(cstderr, 60), 6000)}}, true)
							mu.Unlock()
						}
					}
					st.skip = append(st.skip, idx)
					if ck != nil && ck.Next > st.from {
						st.from = ck.Next
					}
					st.seg++
					st.restarts++
					if st.restarts > 40 {
						addInc(fmt.Sprintf("replica=%d shard=%d: more than 40 crashes, shard abandoned", st.replica, st.shard))
						return
					}
				}
			}(shardState{replica: r, shard: s})
		}
	}
	wg.Wait()

	if p.AltBinLastReplica != "" {
		if altBin != "" {
			total.Notes["second_toolchain"] = "replica " + strconv.Itoa(replicas-1) + " ran " + p.AltBinLastReplica + " (" + altVersion(altBin) + ")"
		} else {
			total.Notes["second_toolchain"] = "skipped: " + p.AltBinLastReplica + " was not built for this tier"
		}
	}
	pc := &ParentCtx{Prop: p, Tier: tier, Seed: seed, RunDir: runDir, OutDir: outDir, VerifDir: verifDir, RepoDir: repoDir, BinDir: binDir, S: total, Replica: perReplica}
	if p.Post != nil && len(inconclusive) == 0 {
		func() {
			defer func() {
				if r := recover(); r != nil {
					addInc(fmt.Sprintf("post-processing panicked: %v", r))
				}
			}()
			p.Post(pc)
		}()
	}
	if total.Observed["harness_errors"] > 0 {
		addInc("harness error: " + Trunc(total.Notes["harness_error"], 1500))
	}
	expected := int64(n) * int64(replicas)
	if total.Cases < expected && len(total.ViolCount) == 0 && len(inconclusive) == 0 {
		addInc(fmt.Sprintf("only %d of %d cases ran", total.Cases, expected))
	}

	// Classify violations against the known-findings file.
	findings := loadFindings(filepath.Join(verifDir, "known_findings.jsonl"))
	known := map[string]Finding{}
	for _, f := range findings {
		if f.Status == "known" && f.Property == propID {
			known[f.Signature] = f
		}
	}
	os.MkdirAll(filepath.Join(outDir, "replays"), 0755)
	var sigs []string
	for s := range total.ViolCount {
		sigs = append(sigs, s)
	}
	sort.Strings(sigs)
	newViolations := 0
	knownSeen := 0
	printed := 0
	for _, sig := range sigs {
		if f, ok := known[sig]; ok {
			fmt.Printf("KNOWN-FINDING: property=%s %s [%s] (%d occurrences)\n", propID, f.What, sig, total.ViolCount[sig])
			knownSeen++
			continue
		}
		newViolations++
		var ex *Violation
		for i := range total.Violations {
			if total.Violations[i].Signature == sig {
				ex = &total.Violations[i]
				break
			}
		}
		if ex == nil {
			ex = &Violation{Property: propID, Signature: sig, Tier: tier, Seed: seed, Index: -1, What: "(details dropped by cap)"}
		}
		path := filepath.Join(outDir, "replays", fmt.Sprintf("%s-%s-seed%d-%s.json", propID, tier, seed, sanitize(sig)))
		b, _ := json.MarshalIndent(ex, "", " ")
		os.WriteFile(path, b, 0644)
		if printed < 20 {
			fmt.Printf("VIOLATION property=%s replay=%s\n", propID, path)
			fmt.Printf("  signature: %s (%d occurrences)\n  what: %s\n", sig, total.ViolCount[sig], Trunc(ex.What, 600))
			printed++
		}
	}

	writeEvidence(pc, time.Since(start).Seconds(), newViolations, knownSeen, inconclusive)

	fmt.Printf("%s %s seed=%d: cases=%d evaluations=%d comparisons=%d distinct_nontrivial=%d violations=%d known=%d wall=%.1fs\n",
		propID, tier, seed, total.Cases, total.Evaluations, total.Comparisons, len(total.Shapes), newViolations, knownSeen, time.Since(start).Seconds())
	if newViolations > 0 {
		return 1
	}
	if len(inconclusive) > 0 {
		sort.Strings(inconclusive)
		inconclusive = dedup(inconclusive)
		for _, s := range inconclusive {
			fmt.Printf("INCONCLUSIVE property=%s reason=%s\n", propID, s)
		}
		return 3
	}
	if total.Evaluations == 0 || len(total.Shapes) < 2 {
		fmt.Printf("INCONCLUSIVE property=%s reason=the monitors observed nothing (evaluations=%d, distinct=%d)\n", propID, total.Evaluations, len(total.Shapes))
		return 3
	}
	os.RemoveAll(runDir)
	return 0
}

func replayMain(p *Property, childBin, replayFile, runDir string) int {
	b, err := os.ReadFile(replayFile)
	if err != nil {
		fmt.Println("cannot read replay:", err)
		return 2
	}
	var v Violation
	if err := json.Unmarshal(b, &v); err != nil {
		fmt.Println("bad replay file:", err)
		return 2
	}
	if v.Index < 0 {
		fmt.Println("this violation was found by a parent-level checker; re-run the whole check with VERIF_SEED=", v.Seed)
		return 2
	}
	a := ChildArgs{Prop: p.ID, Tier: v.Tier, Seed: v.Seed, Replica: v.Replica, Only: v.Index, RunDir: runDir, Replay: true, NShards: 1}
	ab, _ := json.Marshal(a)
	cmd := exec.Command(childBin, "child", string(ab))
	cmd.Stdout = os.Stdout
	cmd.Stderr = os.Stderr
	err = cmd.Run()
	ckb, _ := os.ReadFile(filepath.Join(runDir, fmt.Sprintf("stats-only-%d-%d.json", v.Replica, v.Index)))
	var ck Checkpoint
	json.Unmarshal(ckb, &ck)
	if err != nil {
		fmt.Printf("replay: child died: %v\nVIOLATION property=%s replay=%s\n", err, p.ID, replayFile)
		return 1
	}
	if ck.Stats != nil && len(ck.Stats.Violations) > 0 {
		for _, x := range ck.Stats.Violations {
			fmt.Printf("VIOLATION property=%s replay=%s\n  signature: %s\n  what: %s\n", p.ID, replayFile, x.Signature, x.What)
		}
		return 1
	}
	fmt.Println("replay: the case passes on the current tree")
	return 0
}

type limitedWriter struct {
	buf *bytes.Buffer
	max int
}

func (l *limitedWriter) Write(p []byte) (int, error) {
	if l.buf.Len() < l.max {
		l.buf.Write(p)
	}
	return len(p), nil
}

func envOr(k, d string) string {
	if v := os.Getenv(k); v != "" {
		return v
	}
	return d
}

func sanitize(s string) string {
	var b strings.Builder
	for _, c := range s {
		if c >= 'a' && c <= 'z' || c >= 'A' && c <= 'Z' || c >= '0' && c <= '9' || c == '-' || c == '.' {
			b.WriteRune(c)
		} else {
			b.WriteByte('_')
		}
	}
	out := b.String()
	if len(out) > 100 {
		out = out[:100]
	}
	return out
}

func dedup(xs []string) []string {
	var out []string
	for i, x := range xs {
		if i == 0 || x != xs[i-1] {
			out = append(out, x)
		}
	}
	return out
}

func lastLines(s string, n int) string {
	lines := strings.Split(strings.TrimRight(s, "\n"), "\n")
	if len(lines) > n {
		lines = lines[len(lines)-n:]
	}
	return strings.Join(lines, "\n")
}

// splitFatal extracts the fatal/panic headline and the stack of the first
// running goroutine from a Go crash dump.
func splitFatal(stderr string) (headline, stack string) {
	lines := strings.Split(stderr, "\n")
	for i, l := range lines {
		if strings.HasPrefix(l, "fatal error:") || strings.HasPrefix(l, "panic:") || strings.HasPrefix(l, "runtime: ") || strings.Contains(l, "DATA RACE") {
			headline = l
			// stack: from the first "goroutine" line after the headline
			for j := i; j < len(lines); j++ {
				if strings.HasPrefix(lines[j], "goroutine ") {
					return headline, strings.Join(lines[j:], "\n")
				}
			}
			return headline, strings.Join(lines[i:], "\n")
		}
	}
	return Trunc(lastLines(stderr, 3), 300), stderr
}

// hangWhere looks at a SIGQUIT-less hang: nothing to parse normally; returns "".
func hangWhere(stderr string) string {
	_, stack := splitFatal(stderr)
	for _, line := range strings.Split(stack, "\n") {
		if m := gtfsFrame.FindStringSubmatch(strings.TrimSpace(line)); m != nil {
			return strings.TrimPrefix(frameFunc(m[1]), "github.com/jamespfennell/")
		}
	}
	return ""
}

func altVersion(bin string) string {
	out, err := exec.Command("go", "version", bin).Output()
	if err != nil {
		return "unknown toolchain"
	}
	f := strings.Fields(string(out))
	if len(f) >= 2 {
		return f[len(f)-1]
	}
	return strings.TrimSpace(string(out))
}
