package core

import (
	"encoding/json"
	"fmt"
	"os"
	"os/exec"
	"path/filepath"
	"runtime"
	"sort"
	"strings"
)

func writeEvidence(pc *ParentCtx, wall float64, newViolations, knownSeen int, inconclusive []string) {
	s := pc.S
	samples := make([]any, 0, len(s.Samples))
	for _, x := range s.Samples {
		samples = append(samples, x)
	}
	if len(samples) == 0 {
		samples = append(samples, "no case recorded a sample")
	}
	verdict := "held"
	if newViolations > 0 {
		verdict = "violated"
	} else if len(inconclusive) > 0 {
		verdict = "inconclusive"
	}
	violSigs := map[string]int64{}
	for k, v := range s.ViolCount {
		violSigs[k] = v
	}
	cov := map[string]any{
		"evaluations":          s.Evaluations,
		"distinct_nontrivial":  len(s.Shapes),
		"rule":                 pc.Prop.Rule,
		"samples":              samples,
		"cases":                s.Cases,
		"comparisons":          s.Comparisons,
		"features":             sortedMap(s.Features),
		"observed":             sortedMap(s.Observed),
		"skipped":              sortedMap(s.Skipped),
		"violation_signatures": violSigs,
		"known_findings_seen":  knownSeen,
		"verdict":              verdict,
		"inconclusive":         inconclusive,
		"replicas":             len(pc.Replica),
		"notes":                s.Notes,
		"tools": map[string]string{
			"go":         goVersion(),
			"harness":    "verifharness (vmon parent/child), race build: " + fmt.Sprint(pc.Prop.Race),
			"repo_head":  gitHead(pc.RepoDir),
			"repo_dirty": gitDirty(pc.RepoDir),
			"child_TZ":   "child processes run under TZ in " + fmt.Sprint(ChildZones) + " (by replica and shard)",
		},
	}
	if pc.Prop.Exhaustive {
		cov["exhaustive"] = true
	}
	ev := map[string]any{
		"property_id": pc.Prop.ID,
		"tier":        pc.Tier,
		"seed":        pc.Seed,
		"level":       pc.Prop.Level,
		"coverage":    cov,
		"assumptions": pc.Prop.Assumptions,
		"wall_s":      wall,
		"violations":  newViolations,
	}
	b, _ := json.MarshalIndent(ev, "", " ")
	dir := filepath.Join(pc.OutDir, "evidence")
	os.MkdirAll(dir, 0755)
	os.WriteFile(filepath.Join(dir, pc.Prop.ID+".json"), append(b, '\n'), 0644)
}

func sortedMap(m map[string]int64) map[string]int64 {
	// encoding/json sorts map keys already; copy to drop nil maps
	out := map[string]int64{}
	keys := make([]string, 0, len(m))
	for k := range m {
		keys = append(keys, k)
	}
	sort.Strings(keys)
	for _, k := range keys {
		out[k] = m[k]
	}
	return out
}

func goVersion() string { return runtime.Version() }

func gitHead(dir string) string {
	out, err := exec.Command("git", "-C", dir, "rev-parse", "--short", "HEAD").Output()
	if err != nil {
		return "unknown"
	}
	return strings.TrimSpace(string(out))
}

func gitDirty(dir string) string {
	out, err := exec.Command("git", "-C", dir, "status", "--porcelain", "--untracked-files=no").Output()
	if err != nil {
		return "unknown"
	}
	if strings.TrimSpace(string(out)) == "" {
		return "clean"
	}
	return "modified working tree"
}
