//go:build !race

package core

// RaceEnabled reports whether this binary was built with -race.
const RaceEnabled = false
