package core

import (
	"bytes"
	"encoding/json"
	"fmt"
	"io"
	"log"
	"os"
	"path/filepath"
	"regexp"
	"runtime/debug"
	"runtime/pprof"
	"strconv"
	"strings"
	"sync/atomic"
	"syscall"
	"time"
)

// ChildArgs is the child's command line, JSON-encoded in argv[2].
type ChildArgs struct {
	Prop    string `json:"prop"`
	Tier    string `json:"tier"`
	Seed    int64  `json:"seed"`
	Shard   int    `json:"shard"`
	NShards int    `json:"nshards"`
	Replica int    `json:"replica"`
	From    int    `json:"from"` // first case index to consider
	Skip    []int  `json:"skip"` // case indexes not to run (already attributed crashes)
	Only    int    `json:"only"` // >=0: run exactly this case (confirmation / replay)
	Seg     int    `json:"seg"`
	RunDir  string `json:"rundir"`
	Replay  bool   `json:"replay"`
}

// Checkpoint is what a child leaves behind (periodically and at the end).
type Checkpoint struct {
	Next  int    `json:"next"` // next index this shard would run
	Done  bool   `json:"done"`
	Stats *Stats `json:"stats"`
}

const (
	ExitHang = 97
	// hangCPUSeconds is the CPU time a single case may use before the child
	// declares a suspected hang (decided later by a dedicated re-run).
	hangCPUSeconds = 25.0
)

func cpuSeconds() float64 {
	var ru syscall.Rusage
	syscall.Getrusage(syscall.RUSAGE_SELF, &ru)
	return float64(ru.Utime.Sec+ru.Stime.Sec) + float64(ru.Utime.Usec+ru.Stime.Usec)/1e6
}

// logCounter counts library log lines that announce a rejected row.
type logCounter struct {
	w     io.Writer
	skips int64
	lines int64
}

func (l *logCounter) Write(p []byte) (int, error) {
	atomic.AddInt64(&l.lines, int64(bytes.Count(p, []byte{'\n'})))
	if bytes.Contains(p, []byte("kipping")) {
		atomic.AddInt64(&l.skips, 1)
	}
	if l.w != nil {
		return l.w.Write(p)
	}
	return len(p), nil
}

var LibLog = &logCounter{}

// LibSkips returns the number of library "Skipping …" log lines seen so far.
func LibSkips() int64 { return atomic.LoadInt64(&LibLog.skips) }

var gtfsFrame = regexp.MustCompile(`^(github\.com/jamespfennell/gtfs\S*)`)

// frameFunc strips the argument list from a stack-trace function token.
func frameFunc(tok string) string {
	if i := strings.LastIndex(tok, "("); i > 0 && !strings.HasSuffix(tok, "(*") {
		// keep receiver parentheses such as (*StopTime) intact: only cut when the part after "(" is not a receiver
		rest := tok[i:]
		if !strings.HasPrefix(rest, "(*") || strings.Contains(rest, ")") == false {
			return tok[:i]
		}
	}
	return tok
}

// ClassifyStack derives a stable signature from a panic value and a stack:
// innermost module frame, and whether that frame belongs to gtfs or to the harness.
func ClassifyStack(panicVal string, stack string) (sig string, inLibrary bool) {
	class := "other"
	switch {
	case strings.Contains(panicVal, "nil pointer dereference"):
		class = "nil-deref"
	case strings.Contains(panicVal, "index out of range"):
		class = "index-out-of-range"
	case strings.Contains(panicVal, "slice bounds out of range"):
		class = "slice-bounds"
	case strings.Contains(panicVal, "concurrent map"):
		class = "concurrent-map"
	case strings.Contains(panicVal, "stack overflow") || strings.Contains(panicVal, "goroutine stack exceeds"):
		class = "stack-overflow"
	case strings.Contains(panicVal, "checkptr"):
		class = "checkptr"
	case strings.Contains(panicVal, "unexpected fault address"), strings.Contains(panicVal, "fault"):
		class = "write-to-readonly-input"
	case strings.Contains(panicVal, "out of memory"):
		class = "out-of-memory"
	}
	for _, line := range strings.Split(stack, "\n") {
		line = strings.TrimSpace(line)
		if strings.HasPrefix(line, "verifharness/") || strings.HasPrefix(line, "main.") {
			// Reached a harness frame before any library frame.
			fn := line
			if i := strings.Index(fn, "("); i > 0 {
				fn = fn[:i]
			}
			return "harness|" + fn + "|" + class, false
		}
		if m := gtfsFrame.FindStringSubmatch(line); m != nil {
			fn := strings.TrimPrefix(frameFunc(m[1]), "github.com/jamespfennell/")
			// strip closures' numeric suffixes for stability
			fn = regexp.MustCompile(`\.func\d+(\.\d+)*`).ReplaceAllString(fn, ".func")
			return "crash|" + fn + "|" + class, true
		}
	}
	return "crash|unknown|" + class, true
}

// RunOne runs a single case with panic recovery.
func RunOne(p *Property, c *Ctx) {
	defer func() {
		if r := recover(); r != nil {
			stack := string(debug.Stack())
			// drop the frames of the recover machinery itself
			if i := strings.Index(stack, "panic("); i >= 0 {
				stack = stack[i:]
			}
			pv := fmt.Sprint(r)
			sig, inLib := ClassifyStack(pv, stack)
			if inLib && FaultInROBuf(r) {
				c.Violation(p.ID+"|input-modified|write-fault", "the library wrote to its (read-only mapped) input bytes: "+Trunc(pv, 200), map[string]any{"panic": pv, "stack": Trunc(stack, 4000)})
				return
			}
			if !inLib {
				c.S.Notes["harness_error"] = fmt.Sprintf("case %d: %s\n%s", c.Index, pv, Trunc(stack, 3000))
				c.S.Observed["harness_errors"]++
				return
			}
			c.Violation(sig, "panic: "+Trunc(pv, 200), map[string]any{"panic": pv, "stack": Trunc(stack, 4000)})
		}
	}()
	c.S.Cases++
	p.Run(c)
}

// ChildMain is the entry point of `vmon child <json>`.
func ChildMain(argJSON string) int {
	var a ChildArgs
	if err := json.Unmarshal([]byte(argJSON), &a); err != nil {
		fmt.Fprintln(os.Stderr, "bad child args:", err)
		return 2
	}
	p := Lookup(a.Prop)
	if p == nil {
		fmt.Fprintln(os.Stderr, "unknown property", a.Prop)
		return 2
	}
	tag := fmt.Sprintf("%d-%d-%d", a.Replica, a.Shard, a.Seg)
	if a.Only >= 0 {
		tag = fmt.Sprintf("only-%d-%d", a.Replica, a.Only)
	}
	// Library chatter: fmt.Println goes to os.Stdout, log.Printf to the std logger.
	if !a.Replay {
		if f, err := os.Create(filepath.Join(a.RunDir, "stdout-"+tag+".log")); err == nil {
			os.Stdout = f
		}
		log.SetOutput(LibLog)
		log.SetFlags(0)
	} else {
		log.SetOutput(LibLog)
	}
	debug.SetPanicOnFault(true)

	hbPath := filepath.Join(a.RunDir, fmt.Sprintf("hb-%d-%d", a.Replica, a.Shard))
	if a.Only >= 0 {
		hbPath = filepath.Join(a.RunDir, "hb-"+tag)
	}
	hb, _ := os.OpenFile(hbPath, os.O_CREATE|os.O_WRONLY|os.O_TRUNC, 0644)
	var caseStartCPU atomic.Value
	caseStartCPU.Store(cpuSeconds())
	var curIndex atomic.Int64
	curIndex.Store(-1)
	hangLimit := 900.0
	if p.HangCPUSeconds > 0 {
		hangLimit = p.HangCPUSeconds
	}
	confirmRun := false
	if v, err := strconv.Atoi(os.Getenv("VMON_HANG_CPU")); err == nil && v > 0 {
		hangLimit = float64(v)
		confirmRun = true
		// backstop in case the watchdog goroutine itself cannot run
		syscall.Setrlimit(syscall.RLIMIT_CPU, &syscall.Rlimit{Cur: uint64(2 * v), Max: uint64(2 * v)})
	}
	go func() {
		for {
			time.Sleep(400 * time.Millisecond)
			if cpuSeconds()-caseStartCPU.Load().(float64) > hangLimit {
				fmt.Fprintf(os.Stderr, "fatal error: SUSPECTED-HANG case=%d cpu>%.0fs\n", curIndex.Load(), hangLimit)
				if confirmRun {
					pprof.Lookup("goroutine").WriteTo(os.Stderr, 2)
				}
				os.Exit(ExitHang)
			}
		}
	}()

	stats := NewStats()
	ckPath := filepath.Join(a.RunDir, "stats-"+tag+".json")
	writeCk := func(next int, done bool) {
		stats.Observed["library_skip_log_lines"] = LibSkips()
		stats.Finish()
		b, _ := json.Marshal(Checkpoint{Next: next, Done: done, Stats: stats})
		tmp := ckPath + ".tmp"
		if os.WriteFile(tmp, b, 0644) == nil {
			os.Rename(tmp, ckPath)
		}
	}
	skip := map[int]bool{}
	for _, i := range a.Skip {
		skip[i] = true
	}
	n := p.Cases(a.Tier)
	lastCk := time.Now()
	ckEvery := 1500 * time.Millisecond // grows when writing a checkpoint becomes expensive (large shape sets)
	runIdx := func(i int) {
		if hb != nil {
			hb.WriteAt([]byte(fmt.Sprintf("%012d\n", i)), 0)
		}
		curIndex.Store(int64(i))
		caseStartCPU.Store(cpuSeconds())
		c := &Ctx{Prop: a.Prop, Tier: a.Tier, Seed: a.Seed, Index: i, Replica: a.Replica,
			R: NewRand(a.Seed, a.Prop, "case", i), S: stats, Replay: a.Replay, RunDir: a.RunDir, Shard: a.Shard}
		RunOne(p, c)
	}
	if a.Only >= 0 {
		runIdx(a.Only)
		writeCk(a.Only+1, true)
		return 0
	}
	reversed := p.ReplicaOrders && a.Replica%2 == 1
	// a.From counts positions in this replica's order (position pos runs case index idx)
	for pos := a.From; pos < n; pos++ {
		i := pos
		if reversed {
			i = n - 1 - pos
		}
		// reversed replicas also shard differently, so shard-mates differ between replicas
		sh := i % a.NShards
		if reversed {
			sh = (i / 3) % a.NShards
		}
		if sh != a.Shard || skip[i] {
			continue
		}
		runIdx(i)
		if time.Since(lastCk) > ckEvery {
			t0 := time.Now()
			writeCk(pos+1, false)
			if cost := time.Since(t0); 25*cost > ckEvery {
				ckEvery = 25 * cost
			}
			lastCk = time.Now()
		}
	}
	writeCk(n, true)
	return 0
}
