// Package canon renders values returned by the gtfs library as deterministic,
// line-oriented text ("path = value"), walking every exported field by
// reflection so that new fields are picked up automatically.
package canon

import (
	"fmt"
	"math"
	"reflect"
	"sort"
	"strconv"
	"strings"
	"time"
	"unsafe"
)

// Options configures a dump.
type Options struct {
	// Label returns a symbolic name for a pointer that is identical to an element
	// of one of the result's top-level collections.
	Label func(p unsafe.Pointer, t reflect.Type) (string, bool)
	// SkipFields lists "Type.Field" names that are not rendered.
	SkipFields map[string]bool
	// SortPaths lists slice paths (indices written as []) whose elements are
	// sorted by content before rendering, e.g. ".Services", ".Alerts[].InformedEntities".
	SortPaths map[string]bool
	// NoZone renders time.Time by instant only (zone presentation ignored).
	NoZone bool
	// UnlabelledPrefix is written before the content of a pointer that has no
	// label although a labeller is configured (e.g. "COPY").
	UnlabelledPrefix string
}

var timeType = reflect.TypeOf(time.Time{})
var durationType = reflect.TypeOf(time.Duration(0))

// Dump renders v.
func Dump(v any, o *Options) string {
	if o == nil {
		o = &Options{}
	}
	d := &dumper{o: o}
	lines := d.value(reflect.ValueOf(v), "", nil)
	return strings.Join(lines, "\n")
}

// Lines renders v as a slice of lines.
func Lines(v any, o *Options) []string {
	if o == nil {
		o = &Options{}
	}
	d := &dumper{o: o}
	return d.value(reflect.ValueOf(v), "", nil)
}

type dumper struct {
	o *Options
}

func genericPath(p string) string {
	// strip indices: ".A[12].B[3]" -> ".A[].B[]"
	var b strings.Builder
	in := false
	for _, c := range p {
		if c == '[' {
			in = true
			b.WriteRune(c)
			continue
		}
		if c == ']' {
			in = false
			b.WriteRune(c)
			continue
		}
		if !in {
			b.WriteRune(c)
		}
	}
	return b.String()
}

func fmtFloat(f float64, bits int) string {
	if bits == 32 {
		return fmt.Sprintf("f32:%08x(%s)", math.Float32bits(float32(f)), strconv.FormatFloat(f, 'g', -1, 32))
	}
	return fmt.Sprintf("f64:%016x(%s)", math.Float64bits(f), strconv.FormatFloat(f, 'g', -1, 64))
}

// FmtTime renders an instant with its zone presentation.
func FmtTime(t time.Time, noZone bool) string {
	if noZone {
		return fmt.Sprintf("T{%d.%09d}", t.Unix(), t.Nanosecond())
	}
	name, off := t.Zone()
	return fmt.Sprintf("T{%d.%09d %+d %s}", t.Unix(), t.Nanosecond(), off, name)
}

func (d *dumper) value(v reflect.Value, path string, stack []reflect.Type) []string {
	if !v.IsValid() {
		return []string{path + " = <invalid>"}
	}
	t := v.Type()
	if t == timeType {
		return []string{path + " = " + FmtTime(v.Interface().(time.Time), d.o.NoZone)}
	}
	switch v.Kind() {
	case reflect.Bool:
		return []string{path + " = " + strconv.FormatBool(v.Bool())}
	case reflect.Int, reflect.Int8, reflect.Int16, reflect.Int32, reflect.Int64:
		return []string{path + " = " + strconv.FormatInt(v.Int(), 10)}
	case reflect.Uint, reflect.Uint8, reflect.Uint16, reflect.Uint32, reflect.Uint64, reflect.Uintptr:
		return []string{path + " = " + strconv.FormatUint(v.Uint(), 10)}
	case reflect.Float32:
		return []string{path + " = " + fmtFloat(v.Float(), 32)}
	case reflect.Float64:
		return []string{path + " = " + fmtFloat(v.Float(), 64)}
	case reflect.String:
		return []string{path + " = " + strconv.Quote(v.String())}
	case reflect.Ptr:
		if v.IsNil() {
			return []string{path + " = nil"}
		}
		if d.o.Label != nil && v.Elem().Kind() == reflect.Struct {
			if l, ok := d.o.Label(unsafe.Pointer(v.Pointer()), t.Elem()); ok {
				return []string{path + " = " + l}
			}
			if d.o.UnlabelledPrefix != "" {
				lines := d.value(v.Elem(), path+"->", stack)
				return append([]string{path + " = " + d.o.UnlabelledPrefix}, lines...)
			}
		}
		return d.value(v.Elem(), path+"->", stack)
	case reflect.Interface:
		if v.IsNil() {
			return []string{path + " = nil"}
		}
		e := v.Elem()
		return append([]string{path + " = iface(" + e.Type().String() + ")"}, d.value(e, path+".(v)", stack)...)
	case reflect.Slice, reflect.Array:
		n := v.Len()
		if n == 0 {
			return []string{path + " = []"}
		}
		if t.Elem().Kind() == reflect.Uint8 {
			b := make([]byte, n)
			for i := 0; i < n; i++ {
				b[i] = byte(v.Index(i).Uint())
			}
			return []string{path + " = bytes:" + strconv.Quote(string(b))}
		}
		if d.o.SortPaths != nil && d.o.SortPaths[genericPath(path)] {
			blocks := make([]string, n)
			for i := 0; i < n; i++ {
				blocks[i] = strings.Join(d.value(v.Index(i), "", stack), "\n")
			}
			sort.Strings(blocks)
			out := []string{path + " = len " + strconv.Itoa(n) + " (sorted by content)"}
			for i, b := range blocks {
				pre := path + "[" + strconv.Itoa(i) + "]"
				for _, l := range strings.Split(b, "\n") {
					out = append(out, pre+l)
				}
			}
			return out
		}
		out := []string{path + " = len " + strconv.Itoa(n)}
		for i := 0; i < n; i++ {
			out = append(out, d.value(v.Index(i), path+"["+strconv.Itoa(i)+"]", stack)...)
		}
		return out
	case reflect.Map:
		keys := v.MapKeys()
		ks := make([]string, len(keys))
		m := map[string]reflect.Value{}
		for i, k := range keys {
			ks[i] = fmt.Sprint(k.Interface())
			m[ks[i]] = v.MapIndex(k)
		}
		sort.Strings(ks)
		out := []string{path + " = map len " + strconv.Itoa(len(ks))}
		for _, k := range ks {
			out = append(out, d.value(m[k], path+"{"+k+"}", stack)...)
		}
		return out
	case reflect.Struct:
		for _, st := range stack {
			if st == t {
				// re-entering a type already being rendered: identifier only
				for _, name := range []string{"ID", "Id"} {
					if f, ok := t.FieldByName(name); ok && f.IsExported() {
						return append([]string{path + " = back-ref"}, d.value(v.FieldByIndex(f.Index), path+"."+name, append(stack, t))...)
					}
				}
				return []string{path + " = back-ref"}
			}
		}
		stack = append(stack, t)
		var out []string
		for i := 0; i < t.NumField(); i++ {
			f := t.Field(i)
			if !f.IsExported() {
				continue
			}
			if f.Anonymous && f.Type.Kind() == reflect.Struct && f.Type.NumField() == 0 {
				continue
			}
			if d.o.SkipFields != nil && d.o.SkipFields[t.Name()+"."+f.Name] {
				continue
			}
			out = append(out, d.value(v.Field(i), path+"."+f.Name, stack)...)
		}
		if len(out) == 0 {
			out = []string{path + " = {}"}
		}
		return out
	case reflect.Func, reflect.Chan, reflect.UnsafePointer:
		return []string{path + " = <" + v.Kind().String() + ">"}
	}
	return []string{path + " = <?" + v.Kind().String() + ">"}
}
