package canon

import (
	"fmt"
	"reflect"
	"unsafe"

	"github.com/jamespfennell/gtfs"
)

// StaticLabeler labels pointers that are identical to an element of one of the
// top-level collections of s. With byIndex the label carries the index
// (ordered comparison); otherwise only the collection and the element's id.
func StaticLabeler(s *gtfs.Static, byIndex bool, servicesByIndex bool) func(unsafe.Pointer, reflect.Type) (string, bool) {
	m := map[unsafe.Pointer]string{}
	lab := func(kind string, i int, id string) string {
		if byIndex {
			return fmt.Sprintf("&%s[%d]{%q}", kind, i, id)
		}
		return fmt.Sprintf("&%s{%q}", kind, id)
	}
	for i := range s.Agencies {
		m[unsafe.Pointer(&s.Agencies[i])] = lab("Agencies", i, s.Agencies[i].Id)
	}
	for i := range s.Routes {
		m[unsafe.Pointer(&s.Routes[i])] = lab("Routes", i, s.Routes[i].Id)
	}
	for i := range s.Stops {
		m[unsafe.Pointer(&s.Stops[i])] = lab("Stops", i, s.Stops[i].Id)
	}
	for i := range s.Services {
		if servicesByIndex {
			m[unsafe.Pointer(&s.Services[i])] = lab("Services", i, s.Services[i].Id)
		} else {
			m[unsafe.Pointer(&s.Services[i])] = fmt.Sprintf("&Services{%q}", s.Services[i].Id)
		}
	}
	for i := range s.Trips {
		m[unsafe.Pointer(&s.Trips[i])] = lab("Trips", i, s.Trips[i].ID)
	}
	for i := range s.Shapes {
		m[unsafe.Pointer(&s.Shapes[i])] = lab("Shapes", i, s.Shapes[i].ID)
	}
	return func(p unsafe.Pointer, t reflect.Type) (string, bool) {
		l, ok := m[p]
		return l, ok
	}
}

// StaticOpts returns dump options for a *gtfs.Static.
//
//	ordered: every slice in result order, pointers labelled with their index.
//	otherwise: Services sorted by content and pointers labelled by id only
//	(the order of Services is C06's subject and is not re-reported elsewhere).
func StaticOpts(s *gtfs.Static, ordered bool, withWarnings bool) *Options {
	return StaticOptsMode(s, ordered, ordered, withWarnings)
}

// StaticOptsMode is StaticOpts with the Services collection controlled
// separately: ordered && !servicesOrdered renders every slice in result order
// except Services, which is sorted by content and referenced by id.
func StaticOptsMode(s *gtfs.Static, ordered, servicesOrdered bool, withWarnings bool) *Options {
	o := &Options{
		Label:            StaticLabeler(s, ordered, servicesOrdered),
		SkipFields:       map[string]bool{"ScheduledStopTime.Trip": true},
		UnlabelledPrefix: "COPY",
	}
	if !withWarnings {
		o.SkipFields["Static.Warnings"] = true
	}
	if !servicesOrdered {
		o.SortPaths = map[string]bool{"->.Services": true}
	}
	return o
}

// DumpStaticMode renders a static result (see StaticOptsMode).
func DumpStaticMode(s *gtfs.Static, ordered, servicesOrdered, withWarnings bool) string {
	if s == nil {
		return "<nil static>"
	}
	return Dump(s, StaticOptsMode(s, ordered, servicesOrdered, withWarnings))
}

// DumpStatic renders a static result.
func DumpStatic(s *gtfs.Static, ordered bool, withWarnings bool) string {
	if s == nil {
		return "<nil static>"
	}
	return Dump(s, StaticOpts(s, ordered, withWarnings))
}

// RealtimeOpts returns dump options for a *gtfs.Realtime.
//
//	ordered: everything in result order.
//	otherwise: Vehicles and each alert's InformedEntities are sorted by content.
func RealtimeOpts(ordered bool) *Options {
	o := &Options{}
	if !ordered {
		o.SortPaths = map[string]bool{"->.Vehicles": true, "->.Alerts[].InformedEntities": true}
	}
	return o
}

// DumpRealtime renders a realtime result.
func DumpRealtime(r *gtfs.Realtime, ordered bool) string {
	if r == nil {
		return "<nil realtime>"
	}
	return Dump(r, RealtimeOpts(ordered))
}
