// Package hgen generates journal histories: sequences of NYCT feeds over a small
// stop alphabet, rendered as protobuf with the NYCT extension and parsed by the
// real ParseRealtime so that the journal sees exactly what the parser produces.
package hgen

import (
	"fmt"
	"time"

	"github.com/jamespfennell/gtfs"
	"github.com/jamespfennell/gtfs/extensions/nycttrips"
	gtfsrt "github.com/jamespfennell/gtfs/proto"
	"google.golang.org/protobuf/proto"

	"verifharness/core"
	"verifharness/rgen"
)

// Update is one stop time update of a trip in a feed.
type Update struct {
	Stop     string
	Arr, Dep *int64
	Track    *string
	// SR, when set, is the update's schedule relationship (0 SCHEDULED, 1 SKIPPED, 2 NO_DATA); the journal records stop,
	// arrival, departure and track whatever it says.
	SR *int32
}

// TripState is one trip as reported by one feed.
type TripState struct {
	ID       string // NYCT-format trip id NNNNNN_R..D...
	Date     string // YYYYMMDD
	Route    string
	South    bool
	Assigned bool
	Train    string
	Updates  []Update
	// VehTS, when set on an assigned trip, adds a vehicle position entity for the train with this report time (a held train
	// keeps reporting the same time while its predictions change).
	VehTS *uint64
}

// Feed is one message of a history.
type Feed struct {
	T     uint64
	Trips []TripState
}

type History struct {
	Feeds []Feed
	// ZoneMode selects the Timezone option each feed is parsed with. The journal identifies a trip by its start
	// INSTANT, so none of these may change the journal:
	//   0: no option (UTC); 1: one America/New_York location shared by all feeds; 2: America/New_York loaded afresh
	//   for every feed (equal instants, distinct *time.Location values); 3: a rotation of zones at offset 0 (nil, time.UTC,
	//   a fixed zone, Etc/UTC, Africa/Abidjan), whose local midnights are one and the same instant.
	ZoneMode int
}

// ZoneModes is the number of zone modes.
const ZoneModes = 4

func (h *History) zoneFor(i int, shared *time.Location) *time.Location {
	load := func(name string) *time.Location {
		l, err := time.LoadLocation(name)
		if err != nil {
			return time.UTC
		}
		return l
	}
	switch h.ZoneMode {
	case 1:
		return shared
	case 2:
		return load("America/New_York")
	case 3:
		switch i % 5 {
		case 0:
			return nil
		case 1:
			return time.UTC
		case 2:
			return time.FixedZone("Z0", 0)
		case 3:
			return load("Etc/UTC")
		default:
			return load("Africa/Abidjan")
		}
	}
	return nil
}

// Message renders a feed.
func (f *Feed) Message() *gtfsrt.FeedMessage {
	m := &gtfsrt.FeedMessage{Header: &gtfsrt.FeedHeader{GtfsRealtimeVersion: rgen.S("1.0"), Timestamp: rgen.U64(f.T)}}
	for i, t := range f.Trips {
		d := &gtfsrt.TripDescriptor{TripId: rgen.S(t.ID), RouteId: rgen.S(t.Route), StartDate: rgen.S(t.Date)}
		n := &gtfsrt.NyctTripDescriptor{IsAssigned: proto.Bool(t.Assigned)}
		if t.Assigned {
			n.TrainId = rgen.S(t.Train)
		}
		dir := gtfsrt.NyctTripDescriptor_NORTH
		if t.South {
			dir = gtfsrt.NyctTripDescriptor_SOUTH
		}
		n.Direction = &dir
		proto.SetExtension(d, gtfsrt.E_NyctTripDescriptor, n)
		tu := &gtfsrt.TripUpdate{Trip: d}
		for _, u := range t.Updates {
			su := &gtfsrt.TripUpdate_StopTimeUpdate{StopId: rgen.S(u.Stop)}
			if u.Stop == NoStopID {
				// a stop identified by its sequence number only (GTFS-realtime allows it): no stop_id on the wire
				su.StopId = nil
				su.StopSequence = proto.Uint32(77)
			}
			if u.Arr != nil {
				su.Arrival = &gtfsrt.TripUpdate_StopTimeEvent{Time: rgen.I64(*u.Arr)}
			}
			if u.Dep != nil {
				su.Departure = &gtfsrt.TripUpdate_StopTimeEvent{Time: rgen.I64(*u.Dep)}
			}
			if u.SR != nil {
				x := gtfsrt.TripUpdate_StopTimeUpdate_ScheduleRelationship(*u.SR)
				su.ScheduleRelationship = &x
			}
			if u.Track != nil {
				proto.SetExtension(su, gtfsrt.E_NyctStopTimeUpdate, &gtfsrt.NyctStopTimeUpdate{ActualTrack: rgen.S(*u.Track)})
			}
			tu.StopTimeUpdate = append(tu.StopTimeUpdate, su)
		}
		m.Entity = append(m.Entity, &gtfsrt.FeedEntity{Id: rgen.S(fmt.Sprintf("e%d", i)), TripUpdate: tu})
		if t.Assigned && t.VehTS != nil {
			vp := &gtfsrt.VehiclePosition{Trip: proto.Clone(d).(*gtfsrt.TripDescriptor), Timestamp: rgen.U64(*t.VehTS)}
			if len(t.Updates) > 0 {
				vp.StopId = rgen.S(t.Updates[0].Stop)
			}
			m.Entity = append(m.Entity, &gtfsrt.FeedEntity{Id: rgen.S(fmt.Sprintf("v%d", i)), Vehicle: vp})
		}
	}
	return m
}

// Parse parses every feed of the history with the NYCT trips extension (no stale filtering).
func (h *History) Parse() ([]*gtfs.Realtime, error) {
	var out []*gtfs.Realtime
	shared, _ := time.LoadLocation("America/New_York")
	for i := range h.Feeds {
		rt, err := gtfs.ParseRealtime(rgen.Marshal(h.Feeds[i].Message()), &gtfs.ParseRealtimeOptions{
			Timezone:  h.zoneFor(i, shared),
			Extension: nycttrips.Extension(nycttrips.ExtensionOpts{FilterStaleUnassignedTrips: false, PreserveMTrainPlatformsInBushwick: true}),
		})
		if err != nil {
			return nil, err
		}
		out = append(out, rt)
	}
	return out, nil
}

// Opts controls Gen.
type Opts struct {
	MaxFeeds, MaxTrips int
	// AlwaysAssigned makes every trip carry a vehicle from its first appearance
	// (later updates may still lack one).
	AlwaysAssigned bool
	// RepeatStops allows a stop to occur twice in a trip's route.
	RepeatStops bool
	// ExactFeeds > 0 fixes the number of feeds; RouteLen > 0 fixes the initial number of stops of every trip
	// (stop ids S000, S001, ...) and makes the vehicle advance several stops per feed. Size-threshold sweeps.
	ExactFeeds, RouteLen int
	// Twins lets a history contain pairs of trips whose ids differ in the 6-digit origin prefix only by one hundredth of
	// a minute that truncates to the same start second: two trip descriptors, one journal identity. A feed may then name
	// one identity twice. What the journal records for such an identity is not asserted by the monitors that enable this
	// (the statement does not say); what it records for every OTHER trip is.
	Twins bool
}

var Stops = []string{"A", "B", "C", "D", "E", "F"}

// NoStopID is the marker of a route stop that is written without stop_id.
const NoStopID = "~no-stop-id~"

type tripPlan struct {
	id, date, route, train string
	south                  bool
	routeStops             []string
	pos                    int
	assignedFrom           int // feed index from which the trip is assigned
	reportsPosition        bool
	vehTS                  uint64
}

// Gen draws a history.
func Gen(r *core.Rand, o Opts) *History {
	nF := 1 + r.Intn(o.MaxFeeds)
	if o.ExactFeeds > 0 {
		nF = o.ExactFeeds
	}
	nT := 1 + r.Intn(o.MaxTrips)
	var plans []*tripPlan
	usedKey := map[string]bool{}
	suffixes := []string{"_A..N", "_A..S01R", "_6..N", "_GS.S"}
	// two ordinary consecutive service days, plus the days on which America/New_York has 25 and 23 hours
	dates := []string{"20231114", "20231115", "20231114", "20231115", "20231105", "20240310"}
	for len(plans) < nT {
		origin := r.Intn(144000)
		if r.Chance(1, 6) {
			// an origin time past 24:00:00 (a trip of the previous service day that starts after midnight)
			origin = 144000 + r.Intn(36000)
		}
		if len(plans) > 0 && r.Chance(1, 3) {
			// same start instant as an earlier trip, different suffix — or same suffix, different origin
			fmt.Sscanf(plans[0].id[:6], "%d", &origin)
			if r.Bool() {
				origin = (origin + 100*(1+r.Intn(50))) % 180000
			}
		}
		suf := core.Pick(r, suffixes)
		date := core.Pick(r, dates)
		// two origin times that differ by less than a second (hundredths of a minute, 0.6 s apart) truncate to the same
		// start second and would give two trips of one feed the same journal identity: such a history is ambiguous
		key := fmt.Sprintf("%d|%s|%s", origin*6/10, suf, date)
		if usedKey[key] {
			continue
		}
		usedKey[key] = true
		p := &tripPlan{id: fmt.Sprintf("%06d%s", origin, suf), date: date, route: "A", train: fmt.Sprintf("TRAIN %d", len(plans)), south: r.Bool(), reportsPosition: r.Bool()}
		n := 2 + r.Intn(5)
		perm := r.Perm(len(Stops))
		for i := 0; i < n && i < len(perm); i++ {
			p.routeStops = append(p.routeStops, Stops[perm[i]])
		}
		if r.Chance(1, 6) && len(p.routeStops) >= 2 {
			// one stop of the route has no stop_id (never the first of the route, so that it becomes the first of an
			// update only after the vehicle has passed something)
			k := 1 + r.Intn(len(p.routeStops)-1)
			p.routeStops[k] = NoStopID
		}
		if o.RouteLen > 0 {
			p.routeStops = nil
			for i := 0; i < o.RouteLen; i++ {
				p.routeStops = append(p.routeStops, fmt.Sprintf("S%03d", i))
			}
		}
		if o.RepeatStops && r.Chance(1, 5) && len(p.routeStops) >= 2 {
			p.routeStops = append(p.routeStops, p.routeStops[r.Intn(len(p.routeStops)-1)])
		}
		if !o.AlwaysAssigned && (r.Chance(1, 3) || o.ExactFeeds > 100) {
			p.assignedFrom = r.Intn(nF + 1) // possibly never
		}
		plans = append(plans, p)
		if o.Twins && (origin%5 == 0 || origin%5 == 2) && r.Chance(1, 2) {
			// (origin+1)*6/10 == origin*6/10: the twin starts in the same second
			tw := *p
			tw.id = fmt.Sprintf("%06d%s", origin+1, suf)
			tw.train = p.train + "-twin"
			tw.routeStops = append([]string(nil), p.routeStops...)
			tw.assignedFrom = 0
			plans = append(plans, &tw)
		}
	}
	h := &History{}
	t := uint64(1700000000)
	for fi := 0; fi < nF; fi++ {
		if !r.Chance(1, 10) {
			t += uint64(1 + r.Intn(120))
		}
		f := Feed{T: t}
		for _, p := range plans {
			if r.Chance(1, 5) {
				continue // the trip is missing from this feed
			}
			// evolve the plan
			switch r.Intn(10) {
			case 0, 1, 2, 3: // advance: list shrinks from the front
				if p.pos < len(p.routeStops) {
					p.pos += r.Intn(2)
					if o.RouteLen > 0 {
						p.pos += r.Intn(4)
					}
				}
			case 4: // grows at the back
				p.routeStops = append(p.routeStops, core.Pick(r, Stops))
			case 5: // rerouted mid-trip: the tail changes
				if p.pos < len(p.routeStops) {
					cut := p.pos + r.Intn(len(p.routeStops)-p.pos)
					tail := []string{}
					for k := 0; k < 1+r.Intn(3); k++ {
						tail = append(tail, core.Pick(r, Stops))
					}
					p.routeStops = append(append([]string(nil), p.routeStops[:cut]...), tail...)
				}
			case 6: // jumps back (the list starts at an earlier stop again)
				if p.pos > 0 {
					p.pos--
				}
			}
			var ups []Update
			switch {
			case r.Chance(1, 12):
				// empty update list
			case r.Chance(1, 12):
				// starts at a stop that is not in the route so far
				ups = append(ups, mkUpdate(r, "Z", t))
				for _, s := range p.routeStops[min(p.pos, len(p.routeStops)):] {
					ups = append(ups, mkUpdate(r, s, t))
				}
			default:
				for _, s := range p.routeStops[min(p.pos, len(p.routeStops)):] {
					ups = append(ups, mkUpdate(r, s, t))
				}
			}
			if !o.RepeatStops {
				ups = dedupStops(ups)
			}
			assigned := fi >= p.assignedFrom
			if assigned && r.Chance(1, 6) {
				assigned = false // an update that lacks the vehicle
			}
			train := p.train
			if assigned && fi > p.assignedFrom && len(p.id) > 0 && (fi+len(ups)+int(p.id[len(p.id)-1]))%9 == 4 {
				// an assigned update whose train id is empty: the vehicle is present but has no id (round 13, C15-l). Decided
				// from the content, not from the PRNG, so that every other draw of the history stays what it was.
				train = ""
			}
			ts := TripState{ID: p.id, Date: p.date, Route: p.route, South: p.south, Assigned: assigned, Train: train, Updates: ups}
			if p.reportsPosition {
				if p.vehTS == 0 || r.Bool() {
					p.vehTS = t - uint64(r.Intn(30)) // a new report; otherwise the train is held and repeats its last report time
				}
				v := p.vehTS
				ts.VehTS = &v
			}
			f.Trips = append(f.Trips, ts)
		}
		h.Feeds = append(h.Feeds, f)
	}
	return h
}

func dedupStops(ups []Update) []Update {
	seen := map[string]bool{}
	var out []Update
	for _, u := range ups {
		if seen[u.Stop] {
			continue
		}
		seen[u.Stop] = true
		out = append(out, u)
	}
	return out
}

func mkUpdate(r *core.Rand, stop string, t uint64) Update {
	u := Update{Stop: stop}
	if r.Chance(3, 4) {
		v := int64(t) + int64(r.Intn(3600))
		u.Arr = &v
	}
	if r.Chance(3, 4) {
		v := int64(t) + int64(r.Intn(3600))
		u.Dep = &v
	}
	if r.Chance(1, 2) {
		s := core.Pick(r, []string{"1", "2", "A3", ""})
		u.Track = &s
	}
	if r.Chance(1, 4) {
		x := int32(r.Intn(3))
		u.SR = &x
		if x == 2 && r.Bool() {
			u.Arr, u.Dep = nil, nil // NO_DATA usually comes without times
		}
	}
	return u
}

// SliceSource feeds parsed messages to BuildJournal.
type SliceSource struct {
	Feeds []*gtfs.Realtime
	i     int
}

func (s *SliceSource) Next() *gtfs.Realtime {
	if s.i >= len(s.Feeds) {
		return nil
	}
	s.i++
	return s.Feeds[s.i-1]
}

// Sig is a coarse shape signature of a history.
func (h *History) Sig() string {
	trips := map[string]bool{}
	missing, unassigned, empty := 0, 0, 0
	for _, f := range h.Feeds {
		for _, t := range f.Trips {
			trips[t.ID+t.Date] = true
			if !t.Assigned {
				unassigned++
			}
			if len(t.Updates) == 0 {
				empty++
			}
		}
	}
	for _, f := range h.Feeds {
		missing += len(trips) - len(f.Trips)
	}
	return fmt.Sprintf("feeds%d trips%d missing%d unassigned%d empty%d", len(h.Feeds), len(trips), missing, unassigned, empty)
}
