package sgen

import (
	"sort"
	"time"

	"github.com/jamespfennell/gtfs"
)

// daysFromCivil is the classic civil-date to day-number conversion (days since 1970-01-01).
func daysFromCivil(y, m, d int) int64 {
	if m <= 2 {
		y--
	}
	var era int
	if y >= 0 {
		era = y / 400
	} else {
		era = (y - 399) / 400
	}
	yoe := y - era*400
	mp := (m + 9) % 12
	doy := (153*mp+2)/5 + d - 1
	doe := yoe*365 + yoe/4 - yoe/100 + doy
	return int64(era)*146097 + int64(doe) - 719468
}

// Midnight returns the instant at which the civil date d starts (reads
// 00:00:00) in loc. It does not use time.Date/ParseInLocation: it enumerates the
// UTC offsets in force around that day and keeps the candidates that read back
// as local midnight. ok is false when there is no such instant or more than one
// (DST switch at midnight); the properties are silent on such days.
func Midnight(d Date, loc *time.Location) (t time.Time, ok bool) {
	utcMid := daysFromCivil(d.Y, d.M, d.D) * 86400
	offsets := map[int]bool{}
	for k := -40; k <= 40; k++ {
		_, off := time.Unix(utcMid+int64(k)*3600, 0).In(loc).Zone()
		offsets[off] = true
	}
	var cands []int64
	for off := range offsets {
		c := utcMid - int64(off)
		lt := time.Unix(c, 0).In(loc)
		if lt.Year() == d.Y && int(lt.Month()) == d.M && lt.Day() == d.D && lt.Hour() == 0 && lt.Minute() == 0 && lt.Second() == 0 {
			dup := false
			for _, x := range cands {
				if x == c {
					dup = true
				}
			}
			if !dup {
				cands = append(cands, c)
			}
		}
	}
	if len(cands) != 1 {
		return time.Time{}, false
	}
	return time.Unix(cands[0], 0).In(loc), true
}

// LoadZone mirrors the documented fallback: an unknown zone name means UTC.
func LoadZone(name string) *time.Location {
	// "Local" is how Go spells the zone of the running process; as an agency_timezone it names no zone
	if name == "Local" {
		return time.UTC
	}
	loc, err := time.LoadLocation(name)
	if err != nil {
		return time.UTC
	}
	return loc
}

var routeTypeTable = map[int]gtfs.RouteType{
	0: gtfs.RouteType_Tram, 1: gtfs.RouteType_Subway, 2: gtfs.RouteType_Rail, 3: gtfs.RouteType_Bus, 4: gtfs.RouteType_Ferry,
	5: gtfs.RouteType_CableTram, 6: gtfs.RouteType_AerialLift, 7: gtfs.RouteType_Funicular, 11: gtfs.RouteType_TrolleyBus, 12: gtfs.RouteType_Monorail,
}

var pickupTable = map[int]gtfs.PickupDropOffPolicy{
	0: gtfs.PickupDropOffPolicy_Yes, 1: gtfs.PickupDropOffPolicy_No, 2: gtfs.PickupDropOffPolicy_PhoneAgency, 3: gtfs.PickupDropOffPolicy_CoordinateWithDriver,
}

var wheelchairTable = map[int]gtfs.WheelchairBoarding{0: gtfs.WheelchairBoarding_NotSpecified, 1: gtfs.WheelchairBoarding_Possible, 2: gtfs.WheelchairBoarding_NotPossible}
var bikesTable = map[int]gtfs.BikesAllowed{0: gtfs.BikesAllowed_NotSpecified, 1: gtfs.BikesAllowed_Allowed, 2: gtfs.BikesAllowed_NotAllowed}
var transferTable = map[int]gtfs.TransferType{0: gtfs.TransferType_Recommended, 1: gtfs.TransferType_Timed, 2: gtfs.TransferType_RequiresTime, 3: gtfs.TransferType_NotPossible}

func stopTypeOf(loc int, hasParent bool) gtfs.StopType {
	switch loc {
	case 1:
		return gtfs.StopType_Station
	case 2:
		return gtfs.StopType_EntranceOrExit
	case 3:
		return gtfs.StopType_GenericNode
	case 4:
		return gtfs.StopType_BoardingArea
	}
	// location_type 0: a stop, called a platform when it has a parent station (library documentation)
	if hasParent {
		return gtfs.StopType_Platform
	}
	return gtfs.StopType_Stop
}

func cpF(p *float64) *float64 {
	if p == nil {
		return nil
	}
	x := *p
	return &x
}
func cpI(p *int32) *int32 {
	if p == nil {
		return nil
	}
	x := *p
	return &x
}

// RefResult is the expected parse result plus the bookkeeping of what could not be asserted.
type RefResult struct {
	Static *gtfs.Static
	// SkippedDates counts dates without a unique local midnight; services that
	// contain one are listed in UnassertedServices and must be excluded from
	// comparison by the caller.
	SkippedDates       int
	UnassertedServices map[string]bool
	// AmbiguousWheelchair lists stop indexes whose inherited wheelchair value the
	// statement leaves open (parent is not a station, or the parent station's own
	// value is itself unspecified and it has a parent of its own).
	AmbiguousWheelchair []int
}

// Neutralize blanks what cannot be asserted, in an expected or an actual result, so that the rest can be compared.
func (r *RefResult) Neutralize(s *gtfs.Static, m *Model) {
	for i := range s.Services {
		if r.UnassertedServices[s.Services[i].Id] {
			s.Services[i].StartDate, s.Services[i].EndDate = time.Time{}, time.Time{}
			for k := range s.Services[i].AddedDates {
				s.Services[i].AddedDates[k] = time.Time{}
			}
			for k := range s.Services[i].RemovedDates {
				s.Services[i].RemovedDates[k] = time.Time{}
			}
		}
	}
	for _, idx := range r.AmbiguousWheelchair {
		id := m.Stops[idx].ID
		for i := range s.Stops {
			if s.Stops[i].Id == id {
				s.Stops[i].WheelchairBoarding = -1
			}
		}
	}
}

// Ref transcribes the model into the expected *gtfs.Static. inherit mirrors the
// InheritWheelchairBoarding option.
func Ref(m *Model, inherit bool) *RefResult {
	res := &RefResult{Static: &gtfs.Static{}, UnassertedServices: map[string]bool{}}
	s := res.Static
	for _, a := range m.Agencies {
		s.Agencies = append(s.Agencies, gtfs.Agency{Id: a.ID, Name: a.Name, Url: a.URL, Timezone: a.TZ, Language: a.Lang, Phone: a.Phone, FareUrl: a.FareURL, Email: a.Email})
	}
	loc := LoadZone(m.Agencies[0].TZ)
	for _, r := range m.Routes {
		s.Routes = append(s.Routes, gtfs.Route{
			Id: r.ID, Agency: &s.Agencies[r.Agency], Color: r.Color, TextColor: r.TextColor, ShortName: r.Short, LongName: r.Long,
			Description: r.Desc, Type: routeTypeTable[r.Type], Url: r.URL, SortOrder: cpI(r.SortOrder),
			ContinuousPickup: pickupTable[r.ContPickup], ContinuousDropOff: pickupTable[r.ContDropOff],
		})
	}
	s.Stops = make([]gtfs.Stop, len(m.Stops))
	for i, st := range m.Stops {
		s.Stops[i] = gtfs.Stop{
			Id: st.ID, Code: st.Code, Name: st.Name, Description: st.Desc, ZoneId: st.Zone, Longitude: cpF(st.Lon), Latitude: cpF(st.Lat),
			Url: st.URL, Type: stopTypeOf(st.LocType, st.Parent >= 0), Timezone: st.TZ, WheelchairBoarding: wheelchairTable[st.Wheelchair], PlatformCode: st.Platform,
		}
		if st.Parent >= 0 {
			s.Stops[i].Parent = &s.Stops[st.Parent]
		}
	}
	if inherit {
		// A stop whose own value is unspecified takes its parent station's value (the parent's own, as written).
		for i, st := range m.Stops {
			if st.Parent < 0 || st.Wheelchair != 0 {
				continue
			}
			p := m.Stops[st.Parent]
			if p.LocType == 1 {
				s.Stops[i].WheelchairBoarding = wheelchairTable[p.Wheelchair]
				if p.Wheelchair == 0 && p.Parent >= 0 {
					res.AmbiguousWheelchair = append(res.AmbiguousWheelchair, i)
				}
			} else if p.Wheelchair != 0 || p.Parent >= 0 {
				res.AmbiguousWheelchair = append(res.AmbiguousWheelchair, i)
			}
		}
	}
	for _, t := range m.Transfers {
		s.Transfers = append(s.Transfers, gtfs.Transfer{From: &s.Stops[t.From], To: &s.Stops[t.To], Type: transferTable[t.Type], MinTransferTime: cpI(t.MinTime)})
	}
	// services: calendar rows first, then exception rows in file order
	type svc struct {
		gtfs.Service
		hasRange bool
		minD     Date
		maxD     Date
	}
	before := func(a, b Date) bool {
		if a.Y != b.Y {
			return a.Y < b.Y
		}
		if a.M != b.M {
			return a.M < b.M
		}
		return a.D < b.D
	}
	order := []string{}
	svcs := map[string]*svc{}
	get := func(id string) *svc {
		if x, ok := svcs[id]; ok {
			return x
		}
		x := &svc{}
		x.Id = id
		svcs[id] = x
		order = append(order, id)
		return x
	}
	mid := func(d Date, id string) time.Time {
		t, ok := Midnight(d, loc)
		if !ok {
			res.SkippedDates++
			res.UnassertedServices[id] = true
		}
		return t
	}
	for _, c := range m.Calendar {
		x := get(c.Service)
		x.Monday, x.Tuesday, x.Wednesday, x.Thursday, x.Friday, x.Saturday, x.Sunday = c.Days[0], c.Days[1], c.Days[2], c.Days[3], c.Days[4], c.Days[5], c.Days[6]
		x.hasRange, x.minD, x.maxD = true, c.Start, c.End
	}
	for _, e := range m.CalDates {
		if e.Type != 1 && e.Type != 2 {
			continue
		}
		x := get(e.Service)
		t := mid(e.Date, e.Service)
		if e.Type == 1 {
			x.AddedDates = append(x.AddedDates, t)
		} else {
			x.RemovedDates = append(x.RemovedDates, t)
		}
		if !x.hasRange {
			x.hasRange, x.minD, x.maxD = true, e.Date, e.Date
		} else {
			if before(e.Date, x.minD) {
				x.minD = e.Date
			}
			if before(x.maxD, e.Date) {
				x.maxD = e.Date
			}
		}
	}
	for _, id := range order {
		x := svcs[id]
		x.StartDate = mid(x.minD, id)
		x.EndDate = mid(x.maxD, id)
		s.Services = append(s.Services, x.Service)
	}
	svcIdx := map[string]int{}
	for i := range s.Services {
		svcIdx[s.Services[i].Id] = i
	}
	// shapes sorted by id, points by sequence
	shapePts := map[string][]ShapePt{}
	for _, p := range m.ShapePts {
		shapePts[p.Shape] = append(shapePts[p.Shape], p)
	}
	var shapeIDs []string
	for id := range shapePts {
		shapeIDs = append(shapeIDs, id)
	}
	sort.Strings(shapeIDs)
	shapeIdx := map[string]int{}
	for _, id := range shapeIDs {
		pts := shapePts[id]
		sort.SliceStable(pts, func(i, j int) bool { return pts[i].Seq < pts[j].Seq })
		sh := gtfs.Shape{ID: id}
		for _, p := range pts {
			sh.Points = append(sh.Points, gtfs.ShapePoint{Latitude: p.Lat, Longitude: p.Lon, Distance: cpF(p.Dist)})
		}
		shapeIdx[id] = len(s.Shapes)
		s.Shapes = append(s.Shapes, sh)
	}
	s.Trips = make([]gtfs.ScheduledTrip, len(m.Trips))
	for i, t := range m.Trips {
		dir := gtfs.DirectionID_Unspecified
		if t.Direction == 0 {
			dir = gtfs.DirectionID_False
		} else if t.Direction == 1 {
			dir = gtfs.DirectionID_True
		}
		s.Trips[i] = gtfs.ScheduledTrip{
			Route: &s.Routes[t.Route], Service: &s.Services[svcIdx[t.Service]], ID: t.ID, Headsign: t.Headsign, ShortName: t.Short,
			DirectionId: dir, BlockID: t.Block, WheelchairAccessible: wheelchairTable[t.Wheelchair], BikesAllowed: bikesTable[t.Bikes],
		}
		if t.Shape != "" {
			s.Trips[i].Shape = &s.Shapes[shapeIdx[t.Shape]]
		}
	}
	for _, f := range m.Frequencies {
		et := gtfs.FrequencyBased
		if f.Exact == 1 {
			et = gtfs.ScheduleBased
		}
		s.Trips[f.Trip].Frequencies = append(s.Trips[f.Trip].Frequencies, gtfs.Frequency{
			StartTime: time.Duration(f.Start) * time.Second, EndTime: time.Duration(f.End) * time.Second, Headway: time.Duration(f.Headway) * time.Second, ExactTimes: et,
		})
	}
	for _, st := range m.StopTimes {
		arr, dep := st.Arr, st.Dep
		// fill-in rule: a missing side takes the value of the given side
		if !st.HasArr {
			arr = dep
		}
		if !st.HasDep {
			dep = arr
		}
		s.Trips[st.Trip].StopTimes = append(s.Trips[st.Trip].StopTimes, gtfs.ScheduledStopTime{
			Stop: &s.Stops[st.Stop], ArrivalTime: time.Duration(arr) * time.Second, DepartureTime: time.Duration(dep) * time.Second, StopSequence: st.Seq,
			Headsign: st.Headsign, PickupType: pickupTable[st.Pickup], DropOffType: pickupTable[st.DropOff], ContinuousPickup: pickupTable[st.ContPickup],
			ContinuousDropOff: pickupTable[st.ContDropOff], ShapeDistanceTraveled: cpF(st.Dist), ExactTimes: st.Timepoint == 1,
		})
	}
	for i := range s.Trips {
		sts := s.Trips[i].StopTimes
		sort.SliceStable(sts, func(a, b int) bool { return sts[a].StopSequence < sts[b].StopSequence })
	}
	return res
}
