package sgen

import "verifharness/core"

// ParentRing rewrites parent_station so that the first L stops of the file form
// one ring (stop i names stop i+1, the last names the first); every other stop that
// has no parent is hung below a random ring member (a tail leading into the cycle).
// With tailFirst the first data row is such a tail. Returns false if the table is too small.
func ParentRing(a *Archive, L int, tailFirst bool, r *core.Rand) bool {
	t := a.Table("stops.txt")
	if t == nil || L < 1 || len(t.Rows) < L {
		return false
	}
	idc, pc := t.Col("stop_id"), t.Col("parent_station")
	if idc < 0 || pc < 0 {
		return false
	}
	for i := 0; i < L; i++ {
		t.Rows[i][pc] = t.Rows[(i+1)%L][idc]
	}
	for i := L; i < len(t.Rows); i++ {
		t.Rows[i][pc] = t.Rows[r.Intn(L)][idc]
	}
	if tailFirst && len(t.Rows) > L {
		last := len(t.Rows) - 1
		t.Rows[0], t.Rows[last] = t.Rows[last], t.Rows[0]
	}
	return true
}
