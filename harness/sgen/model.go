// Package sgen generates abstract GTFS static feeds, renders them to zip
// archives under varying presentations and spellings, and transcribes them
// (independently of any CSV code) into the expected *gtfs.Static.
package sgen

import (
	"fmt"
	"math"
	"strconv"

	"verifharness/core"
)

type Date struct{ Y, M, D int }

func (d Date) String() string { return fmt.Sprintf("%04d%02d%02d", d.Y, d.M, d.D) }

type Agency struct {
	ID, Name, URL, TZ, Lang, Phone, FareURL, Email string
}

type Route struct {
	ID                      string
	Agency                  int // index into Agencies
	Color, TextColor        string
	Short, Long, Desc, URL  string
	Type                    int // GTFS digit
	SortOrder               *int32
	ContPickup, ContDropOff int // 0..3
}

type Stop struct {
	ID, Code, Name, Desc, Zone, URL, TZ, Platform string
	Lat, Lon                                      *float64
	LocType                                       int // 0..4
	Parent                                        int // index into Stops or -1
	Wheelchair                                    int // 0..2
}

type Transfer struct {
	From, To int
	Type     int // 0..3
	MinTime  *int32
}

type Calendar struct {
	Service    string
	Days       [7]bool
	Start, End Date
}

type CalDate struct {
	Service string
	Date    Date
	Type    int // 1 added, 2 removed (others ignored by the spec of the statement)
}

type ShapePt struct {
	Shape    string
	Lat, Lon float64
	Seq      int32
	Dist     *float64
}

type Trip struct {
	ID                     string
	Route                  int
	Service                string
	Headsign, Short, Block string
	Direction              int    // -1 unspecified, 0, 1
	Wheelchair, Bikes      int    // 0..2
	Shape                  string // "" none
}

type Frequency struct {
	Trip               int
	Start, End         int // seconds
	Headway            int32
	Exact              int // 0,1
	StartFmt2, EndFmt2 bool
}

type StopTime struct {
	Trip, Stop              int
	Seq                     int
	Arr, Dep                int  // seconds
	HasArr, HasDep          bool // both true in well-formed C01 models
	Headsign                string
	Pickup, DropOff         int // 0..3
	ContPickup, ContDropOff int // 0..3
	Dist                    *float64
	Timepoint               int  // 0,1
	ArrFmt2, DepFmt2        bool // two-digit hours
}

// Model is an abstract well-formed GTFS static feed.
type Model struct {
	Agencies    []Agency
	Routes      []Route
	Stops       []Stop
	Transfers   []Transfer
	Calendar    []Calendar
	CalDates    []CalDate
	ShapePts    []ShapePt
	Trips       []Trip
	Frequencies []Frequency
	StopTimes   []StopTime
	// Optional files with no rows may be omitted from the archive.
	OmitEmptyOptional bool
	// IntPad != 0 makes Tables write about a quarter of the plain integer cells (stop_sequence, shape_pt_sequence,
	// headway_secs, min_transfer_time, route_sort_order) zero-padded ("007", "0600", "09"): the same decimal number.
	IntPad uint64
}

// Zones used for the first agency. The list contains UTC, an unloadable name,
// ordinary DST zones, unusual offsets and zones whose DST switch is at midnight.
var Zones = []string{
	"UTC", "America/New_York", "Europe/London", "Asia/Kolkata", "Australia/Lord_Howe",
	"Mars/Olympus_Mons", "America/Sao_Paulo", "America/Havana", "Asia/Beirut",
	"America/Santiago", "Africa/Cairo", "Pacific/Kiritimati", "America/St_Johns", "Asia/Kathmandu",
	// valid names with a hyphen, a plus sign, digits, three parts
	"America/Port-au-Prince", "Etc/GMT+5", "EST5EDT", "America/Argentina/Buenos_Aires",
	// names that are no zones: abbreviations (which some of the TZ values the children run under know), Go's own name for the
	// zone of the process, an offset
	"NDT", "EDT", "Local", "+12:45",
	// a known zone spelled in another letter case is another name (zone names are case-sensitive)
	"america/new_york", "EUROPE/LONDON",
}

var nastyTexts = []string{
	"", "Main St", "a,b", `say "hi"`, "line1\nline2", " lead", "trail ", "Ünïcödé ✓", "日本", "x", "10", "0", "-1",
	"a;b|c", "'single'", `""`, ",", "tab\there", "http://example.com/?a=1&b=2", "FFFFFF", "N", "é",
	// a bare carriage return inside a (necessarily quoted) cell is kept verbatim by a CSV reader; it is not a line ending
	"old\rmac",
	// text that Unicode normalisation or case folding would rewrite: a decomposed accent, the Angstrom and Kelvin signs,
	// a ligature, full-width digits, sharp s, dotted capital I
	"cafe\u0301", "\u212b\u212a", "\ufb01n", "\uff11\uff12", "Stra\u00dfe", "\u0130stanbul",
}

// The lone space makes ids that differ only by leading or trailing whitespace ("a" / "a " / " a"): distinct ids.
var idAtoms = []string{"a", "b", "A", "1", "10", "2", "01", "s", "st", "stop", "R", "M", "x y", "a,b", `q"`, "é", "ü", "-", "_", "#", "9", " ", "e\u0301", "\u212a", "K"}

func text(r *core.Rand) string {
	if r.Chance(1, 3) {
		return ""
	}
	if r.Chance(1, 2) {
		return core.Pick(r, nastyTexts)
	}
	return core.Pick(r, nastyTexts) + core.Pick(r, nastyTexts)
}

// idGen produces unique, non-empty ids that are prefixes of each other, look like numbers, etc.
type idGen struct {
	r    *core.Rand
	used map[string]bool
}

func newIDGen(r *core.Rand) *idGen { return &idGen{r: r, used: map[string]bool{}} }

func (g *idGen) next() string {
	for tries := 0; ; tries++ {
		n := 1 + g.r.Intn(3)
		s := ""
		for i := 0; i < n; i++ {
			s += core.Pick(g.r, idAtoms)
		}
		if tries > 20 {
			s += strconv.Itoa(len(g.used))
		}
		if !g.used[s] {
			g.used[s] = true
			return s
		}
	}
}

func optF64(r *core.Rand, f func() float64) *float64 {
	if r.Chance(1, 4) {
		return nil
	}
	x := f()
	return &x
}

// Coord draws a coordinate whose shortest decimal rendering round-trips.
func Coord(r *core.Rand, span float64) float64 {
	switch r.Intn(6) {
	case 0:
		return float64(r.Intn(int(2*span))) - span
	case 1:
		return 0
	case 2:
		// few decimals
		x := float64(r.Intn(int(2*span*1e5)))/1e5 - span
		return x
	case 3:
		return -r.Float64() * span
	case 4:
		return r.Float64() * 1e-6
	default:
		return (r.Float64()*2 - 1) * span
	}
}

func seconds(r *core.Rand) int {
	if r.Chance(1, 10) {
		return core.Pick(r, []int{0, 0, 1, 59, 60, 3600, 86399, 86400, 86401, 359999})
	}
	h := 0
	switch r.Intn(5) {
	case 0:
		h = r.Intn(10)
	case 1:
		h = 10 + r.Intn(14)
	case 2:
		h = 24 + r.Intn(6)
	case 3:
		h = 30 + r.Intn(70)
	default:
		h = r.Intn(28)
	}
	return (h*60+r.Intn(60))*60 + r.Intn(60)
}

// BoundaryDates are rare civil dates at which hand-written date code goes wrong:
// leap days (also of years divisible by 100 and 400), ends of months and years, epoch edges.
var BoundaryDates = []Date{{2000, 2, 29}, {2024, 2, 29}, {2096, 2, 29}, {2000, 2, 28}, {2000, 3, 1}, {1970, 1, 1}, {1999, 12, 31}, {2000, 1, 1}, {2038, 1, 19}, {2038, 1, 20}, {2099, 12, 31}, {2023, 2, 28}, {2023, 12, 31}, {1972, 2, 29}}

// TransitionDates are civil dates on which a zone of Zones changes its offset later in the day (local midnight exists
// and is unambiguous, but the offset at the day's other instants, e.g. at UTC midnight, differs from the one at local midnight).
var TransitionDates = []Date{
	{2024, 3, 10}, {2024, 11, 3}, {2024, 3, 11}, // America/New_York, America/Havana, America/St_Johns
	{2024, 3, 31}, {2024, 10, 27}, // Europe/London, Asia/Beirut
	{2024, 4, 7}, {2024, 10, 6}, {2024, 10, 5}, {2024, 4, 6}, // Australia/Lord_Howe (and Sydney-like rules)
	{2024, 9, 8}, {2024, 4, 26}, {2024, 11, 1}, {2018, 2, 18}, // America/Santiago, Africa/Cairo, America/Sao_Paulo
	{1994, 12, 30}, {1995, 1, 1}, // around the day Pacific/Kiritimati skipped
}

func date(r *core.Rand) Date {
	if r.Chance(1, 12) {
		return core.Pick(r, BoundaryDates)
	}
	if r.Chance(1, 12) {
		return core.Pick(r, TransitionDates)
	}
	y := 1970 + r.Intn(130)
	if r.Chance(2, 3) {
		y = 2015 + r.Intn(15)
	}
	m := 1 + r.Intn(12)
	dim := [...]int{31, 28, 31, 30, 31, 30, 31, 31, 30, 31, 30, 31}[m-1]
	if m == 2 && (y%4 == 0 && (y%100 != 0 || y%400 == 0)) {
		dim = 29
	}
	d := 1 + r.Intn(dim)
	if r.Chance(1, 6) {
		// first Sundays / DST-ish dates: cluster around zone transitions
		m = core.Pick(r, []int{2, 3, 4, 9, 10, 11})
		d = 1 + r.Intn(28)
	}
	return Date{y, m, d}
}

// KnownMidnightSwitchDates are civil dates on which some zone in Zones has no
// (or an ambiguous) local midnight; they are mixed in so that the skip path is exercised.
var KnownMidnightSwitchDates = []Date{{2018, 11, 4}, {2023, 3, 12}, {2023, 3, 26}, {2022, 9, 11}, {2010, 4, 30}, {2023, 4, 28}, {1994, 12, 31}}

var routeTypes = []int{0, 1, 2, 3, 4, 5, 6, 7, 11, 12}

// Seqs returns n distinct sequence numbers with gaps and string-vs-number order traps.
// max is the largest value the column can hold (stop_sequence: a Go int; shape_pt_sequence: int32); values around
// 2^31 and 2^32 are drawn when they fit.
func Seqs(r *core.Rand, n int, max int) []int {
	pool := []int{0, 1, 2, 3, 9, 10, 11, 19, 20, 99, 100, 101, 1000, 5, 50, 500}
	if r.Chance(1, 4) {
		for _, b := range []int{1<<31 - 2, 1<<31 - 1, 1 << 31, 1<<31 + 1, 1<<32 - 1, 1 << 32, 1<<32 + 3, 1<<53 + 1} {
			if b <= max {
				pool = append(pool, b)
			}
		}
	}
	out := make([]int, 0, n)
	used := map[int]bool{}
	mode := r.Intn(3)
	for len(out) < n {
		var s int
		switch mode {
		case 0:
			s = len(out) + 1
		case 1:
			s = core.Pick(r, pool)
			if used[s] {
				s = r.Intn(100000)
			}
		default:
			s = r.Intn(3 * (n + 2))
		}
		if used[s] {
			continue
		}
		used[s] = true
		out = append(out, s)
	}
	return out
}

// Size controls the row counts of a generated model.
type Size struct {
	Agencies, Routes, Stops, Transfers, Calendars, CalDates, Shapes, ShapePtsPer, Trips, Freqs, StopTimesPer int
	// Exact makes every count equal to its field instead of a random value up to it
	// (used to sit on slice-growth thresholds).
	Exact bool
}

func (sz Size) n(r *core.Rand, min, max int) int {
	if sz.Exact {
		if max < min {
			return min
		}
		return max
	}
	if max <= 0 {
		return min
	}
	return min + r.Intn(max)
}

var SmallSize = Size{Agencies: 3, Routes: 5, Stops: 10, Transfers: 6, Calendars: 4, CalDates: 8, Shapes: 4, ShapePtsPer: 6, Trips: 7, Freqs: 4, StopTimesPer: 7}

// Gen draws a well-formed model: unique non-empty ids, resolvable references,
// every default-bearing field carrying an explicit value, both arrival and
// departure present, distinct sequences per trip/shape, no CR anywhere.
func Gen(r *core.Rand, sz Size) *Model {
	m := &Model{OmitEmptyOptional: r.Bool()}
	if r.Bool() {
		m.IntPad = r.Uint64() | 1
	}
	ids := newIDGen(r)
	nA := sz.n(r, 1, sz.Agencies)
	for i := 0; i < nA; i++ {
		name := core.Pick(r, nastyTexts)
		if name == "" {
			name = "Agency"
		}
		m.Agencies = append(m.Agencies, Agency{
			ID: ids.next(), Name: name, URL: "http://a" + strconv.Itoa(i) + ".example/" + core.Pick(r, []string{"", "x,y", "q?a=b"}),
			TZ: core.Pick(r, Zones), Lang: core.Pick(r, []string{"", "en", "fr-CA"}), Phone: text(r), FareURL: text(r), Email: text(r),
		})
	}
	ids = newIDGen(r)
	nR := sz.n(r, 1, sz.Routes)
	for i := 0; i < nR; i++ {
		rt := Route{
			ID: ids.next(), Agency: r.Intn(nA), Color: core.Pick(r, []string{"FFFFFF", "000000", "FF00AA", "00ff00", "123ABC"}),
			TextColor: core.Pick(r, []string{"000000", "FFFFFF", "0A0B0C"}), Short: text(r), Long: text(r), Desc: text(r), URL: text(r),
			Type: core.Pick(r, routeTypes), ContPickup: r.Intn(4), ContDropOff: r.Intn(4),
		}
		if r.Chance(1, 2) {
			v := int32(r.Intn(1000))
			if r.Chance(1, 5) {
				v = 2147483647
			}
			rt.SortOrder = &v
		}
		m.Routes = append(m.Routes, rt)
	}
	ids = newIDGen(r)
	nS := sz.n(r, 2, sz.Stops)
	for i := 0; i < nS; i++ {
		st := Stop{
			ID: ids.next(), Code: text(r), Name: text(r), Desc: text(r), Zone: text(r), URL: text(r),
			TZ: core.Pick(r, []string{"", "America/New_York", "UTC"}), Platform: text(r),
			Lat: optF64(r, func() float64 { return Coord(r, 90) }), Lon: optF64(r, func() float64 { return Coord(r, 180) }),
			LocType: r.Intn(5), Parent: -1, Wheelchair: r.Intn(3),
		}
		m.Stops = append(m.Stops, st)
	}
	// parent forest: a stop may only point to a stop of lower "rank" in a random order, so no cycles;
	// parents may be defined after their children in the file.
	rank := r.Perm(nS)
	for i := range m.Stops {
		if r.Chance(1, 2) {
			continue
		}
		j := r.Intn(nS)
		if rank[j] < rank[i] {
			m.Stops[i].Parent = j
			if r.Chance(2, 3) {
				m.Stops[j].LocType = 1 // make most parents stations
			}
		}
	}
	nT := sz.n(r, 0, sz.Transfers+1)
	for i := 0; i < nT; i++ {
		a, b := r.Intn(nS), r.Intn(nS)
		if a == b {
			continue // same-stop transfers are deliberately outside the generator (DESIGN §2.5)
		}
		tr := Transfer{From: a, To: b, Type: r.Intn(4)}
		if r.Bool() {
			v := int32(r.Intn(3600))
			tr.MinTime = &v
		}
		m.Transfers = append(m.Transfers, tr)
	}
	// services
	ids = newIDGen(r)
	var serviceIDs []string
	nC := sz.n(r, 0, sz.Calendars+1)
	for i := 0; i < nC; i++ {
		c := Calendar{Service: ids.next()}
		for d := range c.Days {
			c.Days[d] = r.Bool()
		}
		a, b := date(r), date(r)
		if b.Y < a.Y || (b.Y == a.Y && (b.M < a.M || (b.M == a.M && b.D < a.D))) {
			a, b = b, a
		}
		c.Start, c.End = a, b
		m.Calendar = append(m.Calendar, c)
		serviceIDs = append(serviceIDs, c.Service)
	}
	nD := sz.n(r, 0, sz.CalDates+1)
	if nC == 0 && nD == 0 {
		nD = 1
	}
	var dateOnly []string
	for i := 0; i < nD; i++ {
		var sid string
		switch {
		case len(serviceIDs) > 0 && r.Chance(1, 2):
			sid = core.Pick(r, serviceIDs)
		case len(dateOnly) > 0 && r.Chance(1, 2):
			sid = core.Pick(r, dateOnly)
		default:
			sid = ids.next()
			dateOnly = append(dateOnly, sid)
		}
		d := date(r)
		if r.Chance(1, 10) {
			d = core.Pick(r, KnownMidnightSwitchDates)
		}
		m.CalDates = append(m.CalDates, CalDate{Service: sid, Date: d, Type: 1 + r.Intn(2)})
	}
	serviceIDs = append(serviceIDs, dateOnly...)
	// shapes
	ids = newIDGen(r)
	nSh := sz.n(r, 0, sz.Shapes+1)
	var shapeIDs []string
	var perShape [][]ShapePt
	for i := 0; i < nSh; i++ {
		id := ids.next()
		shapeIDs = append(shapeIDs, id)
		np := sz.n(r, 1, sz.ShapePtsPer)
		seqs := Seqs(r, np, math.MaxInt32)
		var pts []ShapePt
		for _, s := range seqs {
			pts = append(pts, ShapePt{Shape: id, Lat: Coord(r, 90), Lon: Coord(r, 180), Seq: int32(s), Dist: optF64(r, func() float64 { return float64(r.Intn(100000)) / 10 })})
		}
		perShape = append(perShape, pts)
	}
	m.ShapePts = interleave(r, perShape)
	// trips
	ids = newIDGen(r)
	nTr := sz.n(r, 1, sz.Trips)
	for i := 0; i < nTr; i++ {
		t := Trip{
			ID: ids.next(), Route: r.Intn(nR), Service: core.Pick(r, serviceIDs), Headsign: text(r), Short: text(r), Block: text(r),
			Direction: r.Intn(2), Wheelchair: r.Intn(3), Bikes: r.Intn(3),
		}
		if len(shapeIDs) > 0 && r.Bool() {
			t.Shape = core.Pick(r, shapeIDs)
		}
		m.Trips = append(m.Trips, t)
	}
	nF := sz.n(r, 0, sz.Freqs+1)
	for i := 0; i < nF; i++ {
		a, b := seconds(r), seconds(r)
		m.Frequencies = append(m.Frequencies, Frequency{Trip: r.Intn(nTr), Start: a, End: b, Headway: int32(1 + r.Intn(7200)), Exact: r.Intn(2), StartFmt2: r.Bool(), EndFmt2: r.Bool()})
	}
	var perTrip [][]StopTime
	for ti := 0; ti < nTr; ti++ {
		n := sz.n(r, 0, sz.StopTimesPer+1)
		seqs := Seqs(r, n, math.MaxInt64)
		var sts []StopTime
		for _, s := range seqs {
			a := seconds(r)
			st := StopTime{
				Trip: ti, Stop: r.Intn(nS), Seq: s, Arr: a, Dep: a + r.Intn(300), HasArr: true, HasDep: true, Headsign: text(r),
				Pickup: r.Intn(4), DropOff: r.Intn(4), ContPickup: r.Intn(4), ContDropOff: r.Intn(4),
				Dist: optF64(r, func() float64 { return float64(r.Intn(1000000)) / 100 }), Timepoint: r.Intn(2), ArrFmt2: r.Bool(), DepFmt2: r.Bool(),
			}
			sts = append(sts, st)
		}
		perTrip = append(perTrip, sts)
	}
	m.StopTimes = interleave(r, perTrip)
	return m
}

// interleave merges groups in one of several row orders: grouped, round-robin,
// fully shuffled, reversed, or blocks split around other groups.
func interleave[T any](r *core.Rand, groups [][]T) []T {
	return interleaveMode(r, groups, r.Intn(5))
}

func interleaveMode[T any](r *core.Rand, groups [][]T, mode int) []T {
	var out []T
	switch mode {
	case 0: // grouped, in group order, rows in generated order
		for _, g := range groups {
			out = append(out, g...)
		}
	case 1: // round robin
		for i := 0; ; i++ {
			any := false
			for _, g := range groups {
				if i < len(g) {
					out = append(out, g[i])
					any = true
				}
			}
			if !any {
				break
			}
		}
	case 2: // shuffled
		for _, g := range groups {
			out = append(out, g...)
		}
		r.Shuffle(len(out), func(i, j int) { out[i], out[j] = out[j], out[i] })
	case 3: // reversed groups
		for i := len(groups) - 1; i >= 0; i-- {
			g := groups[i]
			for j := len(g) - 1; j >= 0; j-- {
				out = append(out, g[j])
			}
		}
	default: // first half of each group, then second halves
		for _, g := range groups {
			out = append(out, g[:len(g)/2]...)
		}
		for _, g := range groups {
			out = append(out, g[len(g)/2:]...)
		}
	}
	return out
}

// Shape is a coarse signature of the model used for distinct-case counting.
func (m *Model) ShapeSig() string {
	parents := 0
	for _, s := range m.Stops {
		if s.Parent >= 0 {
			parents++
		}
	}
	return fmt.Sprintf("a%d r%d s%d p%d t%d c%d d%d sp%d tr%d f%d st%d tz=%s", len(m.Agencies), len(m.Routes), len(m.Stops), parents,
		len(m.Transfers), len(m.Calendar), len(m.CalDates), len(m.ShapePts), len(m.Trips), len(m.Frequencies), len(m.StopTimes), m.Agencies[0].TZ)
}

// RowOrders names the row orders Reorder can produce for stop_times.txt and shapes.txt.
var RowOrders = []string{"as-generated", "grouped", "round-robin", "shuffled", "reversed", "split-blocks", "sorted-by-sequence", "reverse-sorted"}

// Reorder returns a copy of the model whose stop_times and shape point rows are
// permuted in the given order (a pure permutation of rows; nothing else changes).
func Reorder(m *Model, order string, r *core.Rand) *Model {
	n := *m
	byTrip := make([][]StopTime, len(m.Trips))
	for _, st := range m.StopTimes {
		byTrip[st.Trip] = append(byTrip[st.Trip], st)
	}
	shapeOrder := []string{}
	byShape := map[string][]ShapePt{}
	for _, p := range m.ShapePts {
		if _, ok := byShape[p.Shape]; !ok {
			shapeOrder = append(shapeOrder, p.Shape)
		}
		byShape[p.Shape] = append(byShape[p.Shape], p)
	}
	shapeGroups := make([][]ShapePt, 0, len(shapeOrder))
	for _, id := range shapeOrder {
		shapeGroups = append(shapeGroups, byShape[id])
	}
	mode := -1
	switch order {
	case "as-generated":
		return &n
	case "grouped":
		mode = 0
	case "round-robin":
		mode = 1
	case "shuffled":
		mode = 2
	case "reversed":
		mode = 3
	case "split-blocks":
		mode = 4
	case "sorted-by-sequence", "reverse-sorted":
		for _, g := range byTrip {
			g := g
			sortSlice(g, func(a, b StopTime) bool { return (a.Seq < b.Seq) == (order == "sorted-by-sequence") })
		}
		for _, g := range shapeGroups {
			g := g
			sortSlice(g, func(a, b ShapePt) bool { return (a.Seq < b.Seq) == (order == "sorted-by-sequence") })
		}
		mode = 0
	}
	n.StopTimes = interleaveMode(r, byTrip, mode)
	n.ShapePts = interleaveMode(r, shapeGroups, mode)
	return &n
}

func sortSlice[T any](xs []T, less func(a, b T) bool) {
	for i := 1; i < len(xs); i++ {
		for j := i; j > 0 && less(xs[j], xs[j-1]); j-- {
			xs[j], xs[j-1] = xs[j-1], xs[j]
		}
	}
}
