package sgen

import (
	"fmt"
	"strconv"
	"strings"

	"verifharness/core"
)

// Table is one CSV member at the cell level.
type Table struct {
	Name   string
	Header []string
	Rows   [][]string
}

func (t *Table) Col(name string) int {
	for i, h := range t.Header {
		if h == name {
			return i
		}
	}
	return -1
}

// Clone deep-copies the table.
func (t *Table) Clone() *Table {
	n := &Table{Name: t.Name, Header: append([]string(nil), t.Header...)}
	for _, r := range t.Rows {
		n.Rows = append(n.Rows, append([]string(nil), r...))
	}
	return n
}

// InsertRow inserts cells before row index pos (pos == len appends).
func (t *Table) InsertRow(pos int, cells []string) {
	t.Rows = append(t.Rows, nil)
	copy(t.Rows[pos+1:], t.Rows[pos:])
	t.Rows[pos] = cells
}

// DropCol removes a column.
func (t *Table) DropCol(name string) {
	i := t.Col(name)
	if i < 0 {
		return
	}
	t.Header = append(append([]string(nil), t.Header[:i]...), t.Header[i+1:]...)
	for r := range t.Rows {
		row := t.Rows[r]
		t.Rows[r] = append(append([]string(nil), row[:i]...), row[i+1:]...)
	}
}

// Archive is the set of tables of a feed, in the canonical order.
type Archive struct {
	Tables []*Table
}

func (a *Archive) Table(name string) *Table {
	for _, t := range a.Tables {
		if t.Name == name {
			return t
		}
	}
	return nil
}

func (a *Archive) Clone() *Archive {
	n := &Archive{}
	for _, t := range a.Tables {
		n.Tables = append(n.Tables, t.Clone())
	}
	return n
}

func (a *Archive) Remove(name string) {
	var out []*Table
	for _, t := range a.Tables {
		if t.Name != name {
			out = append(out, t)
		}
	}
	a.Tables = out
}

// FmtTime renders seconds as H:MM:SS or HH:MM:SS.
func FmtTime(sec int, twoDigit bool) string {
	h, m, s := sec/3600, (sec/60)%60, sec%60
	if twoDigit {
		return fmt.Sprintf("%02d:%02d:%02d", h, m, s)
	}
	return fmt.Sprintf("%d:%02d:%02d", h, m, s)
}

// FmtFloat renders the shortest decimal (no exponent) that round-trips.
func FmtFloat(f float64) string { return strconv.FormatFloat(f, 'f', -1, 64) }

func optFloat(p *float64) string {
	if p == nil {
		return ""
	}
	return FmtFloat(*p)
}

func optI32(p *int32) string {
	if p == nil {
		return ""
	}
	return strconv.Itoa(int(*p))
}

// padInt writes v in decimal, zero-padded for about a quarter of the (seed, key) pairs when seed != 0.
func padInt(seed uint64, key string, v int) string {
	s := strconv.Itoa(v)
	if seed == 0 || v < 0 {
		return s
	}
	h := core.HashString(strconv.FormatUint(seed, 16) + "|" + key + "|" + s)
	if h%4 != 0 {
		return s
	}
	return strings.Repeat("0", 1+int(h>>8)%3) + s
}

func optPadI32(seed uint64, key string, p *int32) string {
	if p == nil {
		return ""
	}
	return padInt(seed, key, int(*p))
}

func b01(b bool) string {
	if b {
		return "1"
	}
	return "0"
}

// DefaultCols lists every optional column with a GTFS-defined default, keyed
// "file:column", with the default's explicit spelling ("" when the default has
// no explicit spelling, as for direction_id).
var DefaultCols = []struct{ File, Col, Default string }{
	{"routes.txt", "route_color", "FFFFFF"},
	{"routes.txt", "route_text_color", "000000"},
	{"routes.txt", "continuous_pickup", "1"},
	{"routes.txt", "continuous_drop_off", "1"},
	{"stops.txt", "location_type", "0"},
	{"stops.txt", "wheelchair_boarding", "0"},
	{"transfers.txt", "transfer_type", "0"},
	{"trips.txt", "direction_id", ""},
	{"trips.txt", "wheelchair_accessible", "0"},
	{"trips.txt", "bikes_allowed", "0"},
	{"frequencies.txt", "exact_times", "0"},
	{"stop_times.txt", "pickup_type", "0"},
	{"stop_times.txt", "drop_off_type", "0"},
	{"stop_times.txt", "continuous_pickup", "1"},
	{"stop_times.txt", "continuous_drop_off", "1"},
	{"stop_times.txt", "timepoint", "1"},
}

// Tables renders the model with every value written explicitly.
func Tables(m *Model) *Archive {
	a := &Archive{}
	ag := &Table{Name: "agency.txt", Header: []string{"agency_id", "agency_name", "agency_url", "agency_timezone", "agency_lang", "agency_phone", "agency_fare_url", "agency_email"}}
	for _, x := range m.Agencies {
		ag.Rows = append(ag.Rows, []string{x.ID, x.Name, x.URL, x.TZ, x.Lang, x.Phone, x.FareURL, x.Email})
	}
	a.Tables = append(a.Tables, ag)

	rt := &Table{Name: "routes.txt", Header: []string{"route_id", "agency_id", "route_short_name", "route_long_name", "route_desc", "route_type", "route_url", "route_color", "route_text_color", "route_sort_order", "continuous_pickup", "continuous_drop_off"}}
	for _, x := range m.Routes {
		rt.Rows = append(rt.Rows, []string{x.ID, m.Agencies[x.Agency].ID, x.Short, x.Long, x.Desc, strconv.Itoa(x.Type), x.URL, x.Color, x.TextColor, optPadI32(m.IntPad, "sort"+x.ID, x.SortOrder), strconv.Itoa(x.ContPickup), strconv.Itoa(x.ContDropOff)})
	}
	a.Tables = append(a.Tables, rt)

	st := &Table{Name: "stops.txt", Header: []string{"stop_id", "stop_code", "stop_name", "stop_desc", "stop_lat", "stop_lon", "zone_id", "stop_url", "location_type", "parent_station", "stop_timezone", "wheelchair_boarding", "platform_code"}}
	for _, x := range m.Stops {
		parent := ""
		if x.Parent >= 0 {
			parent = m.Stops[x.Parent].ID
		}
		st.Rows = append(st.Rows, []string{x.ID, x.Code, x.Name, x.Desc, optFloat(x.Lat), optFloat(x.Lon), x.Zone, x.URL, strconv.Itoa(x.LocType), parent, x.TZ, strconv.Itoa(x.Wheelchair), x.Platform})
	}
	a.Tables = append(a.Tables, st)

	if len(m.Transfers) > 0 || !m.OmitEmptyOptional {
		tr := &Table{Name: "transfers.txt", Header: []string{"from_stop_id", "to_stop_id", "transfer_type", "min_transfer_time"}}
		for _, x := range m.Transfers {
			tr.Rows = append(tr.Rows, []string{m.Stops[x.From].ID, m.Stops[x.To].ID, strconv.Itoa(x.Type), optPadI32(m.IntPad, "mintime", x.MinTime)})
		}
		a.Tables = append(a.Tables, tr)
	}
	if len(m.Calendar) > 0 || !m.OmitEmptyOptional {
		c := &Table{Name: "calendar.txt", Header: []string{"service_id", "monday", "tuesday", "wednesday", "thursday", "friday", "saturday", "sunday", "start_date", "end_date"}}
		for _, x := range m.Calendar {
			row := []string{x.Service}
			for _, d := range x.Days {
				row = append(row, b01(d))
			}
			row = append(row, x.Start.String(), x.End.String())
			c.Rows = append(c.Rows, row)
		}
		a.Tables = append(a.Tables, c)
	}
	if len(m.CalDates) > 0 || !m.OmitEmptyOptional {
		c := &Table{Name: "calendar_dates.txt", Header: []string{"service_id", "date", "exception_type"}}
		for _, x := range m.CalDates {
			c.Rows = append(c.Rows, []string{x.Service, x.Date.String(), strconv.Itoa(x.Type)})
		}
		a.Tables = append(a.Tables, c)
	}
	if len(m.ShapePts) > 0 || !m.OmitEmptyOptional {
		s := &Table{Name: "shapes.txt", Header: []string{"shape_id", "shape_pt_lat", "shape_pt_lon", "shape_pt_sequence", "shape_dist_traveled"}}
		for _, x := range m.ShapePts {
			s.Rows = append(s.Rows, []string{x.Shape, FmtFloat(x.Lat), FmtFloat(x.Lon), padInt(m.IntPad, "shape"+x.Shape, int(x.Seq)), optFloat(x.Dist)})
		}
		a.Tables = append(a.Tables, s)
	}
	tp := &Table{Name: "trips.txt", Header: []string{"route_id", "service_id", "trip_id", "trip_headsign", "trip_short_name", "direction_id", "block_id", "shape_id", "wheelchair_accessible", "bikes_allowed"}}
	for _, x := range m.Trips {
		dir := ""
		if x.Direction >= 0 {
			dir = strconv.Itoa(x.Direction)
		}
		tp.Rows = append(tp.Rows, []string{m.Routes[x.Route].ID, x.Service, x.ID, x.Headsign, x.Short, dir, x.Block, x.Shape, strconv.Itoa(x.Wheelchair), strconv.Itoa(x.Bikes)})
	}
	a.Tables = append(a.Tables, tp)
	if len(m.Frequencies) > 0 || !m.OmitEmptyOptional {
		f := &Table{Name: "frequencies.txt", Header: []string{"trip_id", "start_time", "end_time", "headway_secs", "exact_times"}}
		for _, x := range m.Frequencies {
			f.Rows = append(f.Rows, []string{m.Trips[x.Trip].ID, FmtTime(x.Start, x.StartFmt2), FmtTime(x.End, x.EndFmt2), padInt(m.IntPad, "headway", int(x.Headway)), strconv.Itoa(x.Exact)})
		}
		a.Tables = append(a.Tables, f)
	}
	stt := &Table{Name: "stop_times.txt", Header: []string{"trip_id", "arrival_time", "departure_time", "stop_id", "stop_sequence", "stop_headsign", "pickup_type", "drop_off_type", "continuous_pickup", "continuous_drop_off", "shape_dist_traveled", "timepoint"}}
	for _, x := range m.StopTimes {
		arr, dep := "", ""
		if x.HasArr {
			arr = FmtTime(x.Arr, x.ArrFmt2)
		}
		if x.HasDep {
			dep = FmtTime(x.Dep, x.DepFmt2)
		}
		stt.Rows = append(stt.Rows, []string{m.Trips[x.Trip].ID, arr, dep, m.Stops[x.Stop].ID, padInt(m.IntPad, "seq"+m.Trips[x.Trip].ID, x.Seq), x.Headsign,
			strconv.Itoa(x.Pickup), strconv.Itoa(x.DropOff), strconv.Itoa(x.ContPickup), strconv.Itoa(x.ContDropOff), optFloat(x.Dist), strconv.Itoa(x.Timepoint)})
	}
	a.Tables = append(a.Tables, stt)
	return a
}

// Spelling modes for a default-bearing column.
const (
	SpellExplicit = iota // every cell written
	SpellBlank           // cells holding the default are blank
	SpellAbsent          // column omitted (all rows must hold the default)
	SpellMixture         // cells holding the default are blank or explicit, row by row
)

// ApplySpelling rewrites the archive's default-bearing column (file, col).
// For SpellAbsent the caller must have made every row hold the default.
func ApplySpelling(a *Archive, file, col, def string, mode int, r *core.Rand) {
	t := a.Table(file)
	if t == nil {
		return
	}
	i := t.Col(col)
	if i < 0 {
		return
	}
	switch mode {
	case SpellBlank:
		for _, row := range t.Rows {
			if row[i] == def {
				row[i] = ""
			}
		}
	case SpellMixture:
		for _, row := range t.Rows {
			if row[i] == def && r.Bool() {
				row[i] = ""
			}
		}
	case SpellAbsent:
		t.DropCol(col)
	}
}
