package sgen

import (
	"archive/zip"
	"bytes"
	"fmt"
	"hash/crc32"
	"sort"
	"strings"

	"verifharness/core"
)

// Presentation describes the byte-level rendering choices; it never changes the tables' content.
type Presentation struct {
	Plain bool // canonical rendering: LF, minimal quoting, trailing newline, Deflate, table order
	// Per-run switches, drawn per member when not Plain.
	R *core.Rand
	// Used collects the presentation features that were actually applied (for evidence).
	Used map[string]int
	// NoExtraCols disables unknown extra columns (needed when the caller compares warning cells).
	NoExtraCols bool
	// NoColPerm disables column permutation.
	NoColPerm bool
}

func (p *Presentation) use(f string) {
	if p.Used == nil {
		p.Used = map[string]int{}
	}
	p.Used[f]++
}

var extraColNames = []string{"stop_id2", "xstop_id", "Stop_ID", " stop_id", "trip_id ", "route", "", "agency", "shape_id_", "service", "note", "stop_sequence2", "ARRIVAL_TIME", "date2", "extra,col", `ex"tra`}

var extraColValues = []string{"", "1", "0", "x", "a,b", `"`, "line\nbreak", "20200101", "12:00:00", " ", "é"}

func needsQuote(s string) bool {
	return strings.ContainsAny(s, ",\"\n\r")
}

func quote(s string) string {
	return `"` + strings.ReplaceAll(s, `"`, `""`) + `"`
}

// EncodeCSV renders one table. style: 0 minimal quoting, 1 everything quoted, 2 random.
func EncodeCSV(header []string, rows [][]string, style int, crlf bool, trailingNL bool, bom bool, r *core.Rand) []byte {
	var b bytes.Buffer
	if bom {
		b.Write([]byte{0xEF, 0xBB, 0xBF})
	}
	nl := "\n"
	if crlf {
		nl = "\r\n"
	}
	writeRow := func(cells []string, last bool) {
		for i, c := range cells {
			if i > 0 {
				b.WriteByte(',')
			}
			q := needsQuote(c)
			switch style {
			case 1:
				q = true
			case 2:
				if r != nil && r.Chance(1, 3) {
					q = true
				}
			}
			// A row consisting of one empty unquoted field would be an empty line, which CSV readers skip.
			if len(cells) == 1 && c == "" {
				q = true
			}
			if q {
				b.WriteString(quote(c))
			} else {
				b.WriteString(c)
			}
		}
		if !last || trailingNL {
			b.WriteString(nl)
		}
	}
	writeRow(header, len(rows) == 0)
	for i, row := range rows {
		writeRow(row, i == len(rows)-1)
	}
	return b.Bytes()
}

type member struct {
	name string
	data []byte
}

// Encode renders the archive as a zip file under the presentation.
func Encode(a *Archive, p *Presentation) []byte {
	var members []member
	r := p.R
	for _, t := range a.Tables {
		header := append([]string(nil), t.Header...)
		rows := make([][]string, len(t.Rows))
		for i := range t.Rows {
			rows[i] = append([]string(nil), t.Rows[i]...)
		}
		style, crlf, trailing, bom := 0, false, true, false
		if !p.Plain {
			// unknown extra columns
			if !p.NoExtraCols && r.Chance(1, 2) {
				n := 1 + r.Intn(3)
				used := map[string]bool{}
				for _, h := range header {
					used[h] = true
				}
				for k := 0; k < n; k++ {
					name := core.Pick(r, extraColNames)
					if used[name] {
						continue
					}
					used[name] = true
					header = append(header, name)
					for i := range rows {
						rows[i] = append(rows[i], core.Pick(r, extraColValues))
					}
					p.use("extra-column")
				}
			}
			// column permutation
			if !p.NoColPerm && r.Chance(2, 3) {
				perm := r.Perm(len(header))
				nh := make([]string, len(header))
				for i, j := range perm {
					nh[i] = header[j]
				}
				for ri := range rows {
					nr := make([]string, len(header))
					for i, j := range perm {
						nr[i] = rows[ri][j]
					}
					rows[ri] = nr
				}
				header = nh
				p.use("column-permutation")
			}
			style = r.Intn(3)
			crlf = r.Bool()
			trailing = r.Bool()
			bom = r.Chance(1, 3)
			p.use(fmt.Sprintf("quote-style-%d", style))
			if crlf {
				p.use("crlf")
			}
			if !trailing {
				p.use("no-trailing-newline")
			}
			if bom {
				p.use("bom")
			}
		}
		members = append(members, member{t.Name, EncodeCSV(header, rows, style, crlf, trailing, bom, r)})
	}
	nReal := len(members)
	if !p.Plain {
		if r.Chance(1, 2) {
			extras := []member{
				{"feed_info.txt", []byte("feed_publisher_name,feed_lang\nx,en\n")},
				{"dir/agency.txt", []byte("agency_id,agency_name,agency_url,agency_timezone\nzz,Nested,http://n,UTC\n")},
				{"junk.bin", []byte{0, 1, 2, 0xff, 0xfe, '\n', '"', ',', 0}},
				{"AGENCY.TXT", []byte("agency_name\nUpper\n")},
				{"stops.txt.bak", []byte("stop_id\nbak\n")},
				{"empty.txt", nil},
				{"agency.txt/", nil},
				{"fare_attributes.txt", []byte("fare_id,price\n\"a\",1\n")},
			}
			n := 1 + r.Intn(3)
			for k := 0; k < n; k++ {
				e := core.Pick(r, extras)
				dup := false
				for _, m := range members {
					if m.name == e.name {
						dup = true
					}
				}
				if !dup {
					members = append(members, e)
					p.use("extra-member")
				}
			}
		}
		if r.Chance(1, 2) && nReal > 0 {
			// decoys: members whose names are near misses of a supported file name (hidden / AppleDouble / backup / padded /
			// re-cased), holding that file's header and no rows; an unknown name must stay unknown
			real := members[r.Intn(nReal)]
			hdr := real.data
			if i := bytes.IndexByte(hdr, '\n'); i >= 0 {
				hdr = hdr[:i+1]
			}
			n := real.name
			names := []string{"." + n, "._" + n, "__MACOSX/._" + n, n + "~", n + ".txt", "x" + n, strings.ToUpper(n[:1]) + n[1:], " " + n, n + " ", ".." + n, strings.TrimSuffix(n, ".txt"), strings.TrimSuffix(n, ".txt") + ".csv"}
			for k := 0; k < 1+r.Intn(3); k++ {
				members = append(members, member{core.Pick(r, names), hdr})
				p.use("decoy-member")
			}
		}
		if r.Chance(1, 2) {
			// an optional table that the archive does not have, present only as a member of a sub-directory (an old export
			// left in the zip): a different member name, hence an unknown extra file
			present := map[string]bool{}
			for _, m := range members {
				present[m.name] = true
			}
			nested := []member{
				{"shapes.txt", []byte("shape_id,shape_pt_lat,shape_pt_lon,shape_pt_sequence\nnested-shape,1.5,2.5,1\nnested-shape,1.6,2.6,2\n")},
				{"calendar_dates.txt", []byte("service_id,date,exception_type\nnested-service,20240101,1\n")},
				{"calendar.txt", []byte("service_id,monday,tuesday,wednesday,thursday,friday,saturday,sunday,start_date,end_date\nnested-calendar,1,1,1,1,1,0,0,20240101,20241231\n")},
			}
			for _, n := range nested {
				if !present[n.name] && r.Bool() {
					members = append(members, member{core.Pick(r, []string{"previous/", "old/", "feed/", "__MACOSX/"}) + n.name, n.data})
					p.use("nested-copy-of-an-absent-optional-table")
				}
			}
		}
		if r.Chance(2, 3) {
			r.Shuffle(len(members), func(i, j int) { members[i], members[j] = members[j], members[i] })
			p.use("member-order-shuffled")
		}
	}
	var zb bytes.Buffer
	zw := zip.NewWriter(&zb)
	for _, m := range members {
		method := zip.Deflate
		if !p.Plain && r.Bool() {
			method = zip.Store
			p.use("zip-store")
		}
		w, err := zw.CreateHeader(&zip.FileHeader{Name: m.name, Method: method})
		if err != nil {
			panic(err)
		}
		w.Write(m.data)
	}
	zw.Close()
	return zb.Bytes()
}

// EncodeRaw builds a zip from raw members (used by the hostile-input workloads).
func EncodeRaw(names []string, datas [][]byte) []byte {
	var zb bytes.Buffer
	zw := zip.NewWriter(&zb)
	for i, n := range names {
		w, err := zw.CreateHeader(&zip.FileHeader{Name: n, Method: zip.Deflate})
		if err != nil {
			continue
		}
		w.Write(datas[i])
	}
	zw.Close()
	return zb.Bytes()
}

// EncodeLying builds a zip whose member headers lie: member `liar` is written raw (stored) with a declared uncompressed
// size, compressed size or CRC that does not match its bytes. kind selects the lie.
func EncodeLying(names []string, datas [][]byte, liar int, kind string) []byte {
	var zb bytes.Buffer
	zw := zip.NewWriter(&zb)
	for i, n := range names {
		if i != liar {
			w, err := zw.CreateHeader(&zip.FileHeader{Name: n, Method: zip.Deflate})
			if err != nil {
				continue
			}
			w.Write(datas[i])
			continue
		}
		fh := &zip.FileHeader{Name: n, Method: zip.Store}
		fh.CRC32 = crc32.ChecksumIEEE(datas[i])
		fh.CompressedSize64 = uint64(len(datas[i]))
		fh.UncompressedSize64 = uint64(len(datas[i]))
		switch kind {
		case "uncompressed-size-2^50":
			fh.UncompressedSize64 = 1 << 50
		case "uncompressed-size-2^62":
			fh.UncompressedSize64 = 1 << 62
		case "uncompressed-size-2^32-1":
			fh.UncompressedSize64 = 1<<32 - 1
		case "uncompressed-size-zero":
			fh.UncompressedSize64 = 0
		case "uncompressed-size-one-less":
			if len(datas[i]) > 0 {
				fh.UncompressedSize64 = uint64(len(datas[i]) - 1)
			}
		case "compressed-size-2^40":
			fh.CompressedSize64 = 1 << 40
		case "wrong-crc":
			fh.CRC32 ^= 0xdeadbeef
		case "deflate-declared-but-stored":
			fh.Method = zip.Deflate
		}
		w, err := zw.CreateRaw(fh)
		if err != nil {
			continue
		}
		w.Write(datas[i])
	}
	zw.Close()
	return zb.Bytes()
}

// LyingKinds are the lies EncodeLying knows.
var LyingKinds = []string{"uncompressed-size-2^50", "uncompressed-size-2^62", "uncompressed-size-2^32-1", "uncompressed-size-zero", "uncompressed-size-one-less", "compressed-size-2^40", "wrong-crc", "deflate-declared-but-stored"}

// UsedString renders the used-feature map deterministically.
func (p *Presentation) UsedString() string {
	var ks []string
	for k := range p.Used {
		ks = append(ks, k)
	}
	sort.Strings(ks)
	return strings.Join(ks, ",")
}
