package sgen

import (
	"fmt"
	"strconv"

	"verifharness/core"
)

// TagColumns are free-text columns into which a unique row tag is written so
// that a result entity can be mapped back to the row that produced it even when
// ids are duplicated.
var TagColumns = map[string]string{
	"routes.txt":     "route_desc",
	"stops.txt":      "stop_desc",
	"trips.txt":      "trip_headsign",
	"stop_times.txt": "stop_headsign",
	"transfers.txt":  "min_transfer_time",
}

// Tag writes unique tags into the tag columns ("tag:<n>", or the number itself for transfers).
func Tag(a *Archive) {
	for _, t := range a.Tables {
		col, ok := TagColumns[t.Name]
		if !ok {
			continue
		}
		ci := t.Col(col)
		if ci < 0 {
			continue
		}
		for i, row := range t.Rows {
			row[ci] = tagFor(t.Name, i)
		}
	}
}

func tagFor(file string, i int) string {
	if file == "transfers.txt" {
		return strconv.Itoa(100000 + i)
	}
	return "tag:" + strconv.Itoa(i)
}

// RefColumns lists the reference-bearing columns per file and the file they point into.
var RefColumns = []struct{ File, Col, Target, TargetCol string }{
	{"routes.txt", "agency_id", "agency.txt", "agency_id"},
	{"stops.txt", "parent_station", "stops.txt", "stop_id"},
	{"transfers.txt", "from_stop_id", "stops.txt", "stop_id"},
	{"transfers.txt", "to_stop_id", "stops.txt", "stop_id"},
	{"trips.txt", "route_id", "routes.txt", "route_id"},
	{"trips.txt", "service_id", "calendar.txt", "service_id"},
	{"trips.txt", "shape_id", "shapes.txt", "shape_id"},
	{"frequencies.txt", "trip_id", "trips.txt", "trip_id"},
	{"stop_times.txt", "trip_id", "trips.txt", "trip_id"},
	{"stop_times.txt", "stop_id", "stops.txt", "stop_id"},
	{"calendar_dates.txt", "service_id", "calendar.txt", "service_id"},
}

// IDColumns lists the id column of each file.
var IDColumns = map[string]string{
	"agency.txt": "agency_id", "routes.txt": "route_id", "stops.txt": "stop_id", "trips.txt": "trip_id", "calendar.txt": "service_id", "shapes.txt": "shape_id",
}

// RequiredColumns lists the required columns of each file (as the parser treats them).
var RequiredColumns = map[string][]string{
	"agency.txt":         {"agency_name", "agency_url", "agency_timezone"},
	"routes.txt":         {"route_id", "route_type"},
	"stops.txt":          {"stop_id"},
	"transfers.txt":      {"from_stop_id", "to_stop_id"},
	"calendar.txt":       {"service_id", "monday", "tuesday", "wednesday", "thursday", "friday", "saturday", "sunday", "start_date", "end_date"},
	"calendar_dates.txt": {"service_id", "date", "exception_type"},
	"shapes.txt":         {"shape_id", "shape_pt_lat", "shape_pt_lon", "shape_pt_sequence"},
	"trips.txt":          {"route_id", "service_id", "trip_id"},
	"frequencies.txt":    {"trip_id", "start_time", "end_time", "headway_secs"},
	"stop_times.txt":     {"stop_id", "stop_sequence", "trip_id"},
}

var HostileCells = []string{"", "nope", " ", "0", "-1", "1e400", "NaN", "abc", "::", "25:61:61", "99999999999999999999", "\"", "12:00", "1:2:3:4", "20201301", "2020-01-01", "٣", "0x10", "+5", "1.5", "9223372036854775808", "-9223372036854775809", "tag:0", "a,b", "é"}

// Corrupt applies n random semantic corruptions to the archive (cell level) and
// returns a description of what was done.
func Corrupt(a *Archive, r *core.Rand, n int) []string {
	var done []string
	pickTable := func() *Table {
		for tries := 0; tries < 10; tries++ {
			t := core.Pick(r, a.Tables)
			if len(t.Rows) > 0 {
				return t
			}
		}
		return nil
	}
	for k := 0; k < n; k++ {
		switch r.Intn(12) {
		case 0, 1: // dangling or blank reference
			rc := core.Pick(r, RefColumns)
			t := a.Table(rc.File)
			if t == nil || len(t.Rows) == 0 {
				continue
			}
			ci := t.Col(rc.Col)
			if ci < 0 {
				continue
			}
			v := core.Pick(r, []string{"", "nope", "tag:0", " "})
			t.Rows[r.Intn(len(t.Rows))][ci] = v
			done = append(done, fmt.Sprintf("%s.%s=%q", rc.File, rc.Col, v))
		case 2: // reference of the wrong kind
			rc := core.Pick(r, RefColumns)
			t := a.Table(rc.File)
			other := pickTable()
			if t == nil || len(t.Rows) == 0 || other == nil {
				continue
			}
			ci := t.Col(rc.Col)
			if ci < 0 {
				continue
			}
			t.Rows[r.Intn(len(t.Rows))][ci] = other.Rows[r.Intn(len(other.Rows))][0]
			done = append(done, fmt.Sprintf("%s.%s=cell of %s", rc.File, rc.Col, other.Name))
		case 3: // duplicate id
			files := []string{"agency.txt", "routes.txt", "stops.txt", "trips.txt", "calendar.txt"}
			f := core.Pick(r, files)
			t := a.Table(f)
			if t == nil || len(t.Rows) < 2 {
				continue
			}
			ci := t.Col(IDColumns[f])
			i, j := r.Intn(len(t.Rows)), r.Intn(len(t.Rows))
			if ci < 0 || i == j {
				continue
			}
			t.Rows[j][ci] = t.Rows[i][ci]
			done = append(done, "duplicate-id:"+f)
		case 4: // parent cycles
			t := a.Table("stops.txt")
			if t == nil || len(t.Rows) == 0 {
				continue
			}
			idc, pc := t.Col("stop_id"), t.Col("parent_station")
			if idc < 0 || pc < 0 {
				continue
			}
			switch l := 1 + r.Intn(3); {
			case l == 1 || len(t.Rows) < 2:
				i := r.Intn(len(t.Rows))
				t.Rows[i][pc] = t.Rows[i][idc]
				done = append(done, "parent-self")
			case l == 2 || len(t.Rows) < 3:
				i, j := r.Intn(len(t.Rows)), r.Intn(len(t.Rows))
				t.Rows[i][pc] = t.Rows[j][idc]
				t.Rows[j][pc] = t.Rows[i][idc]
				done = append(done, "parent-mutual")
			default:
				p := r.Perm(len(t.Rows))
				ln := 3 + r.Intn(len(t.Rows)-2)
				for x := 0; x < ln; x++ {
					t.Rows[p[x]][pc] = t.Rows[p[(x+1)%ln]][idc]
				}
				done = append(done, fmt.Sprintf("parent-cycle-%d", ln))
			}
		case 5: // blank a required cell
			t := pickTable()
			if t == nil {
				continue
			}
			req := RequiredColumns[t.Name]
			if len(req) == 0 {
				continue
			}
			ci := t.Col(core.Pick(r, req))
			if ci < 0 {
				continue
			}
			t.Rows[r.Intn(len(t.Rows))][ci] = ""
			done = append(done, "blank-required:"+t.Name)
		case 6: // hostile cell anywhere
			t := pickTable()
			if t == nil {
				continue
			}
			ci := r.Intn(len(t.Header))
			if tc, ok := TagColumns[t.Name]; ok && t.Header[ci] == tc {
				continue
			}
			v := core.Pick(r, HostileCells)
			t.Rows[r.Intn(len(t.Rows))][ci] = v
			done = append(done, fmt.Sprintf("hostile:%s.%s=%q", t.Name, t.Header[ci], v))
		case 7: // shuffle rows
			t := pickTable()
			if t == nil {
				continue
			}
			r.Shuffle(len(t.Rows), func(i, j int) { t.Rows[i], t.Rows[j] = t.Rows[j], t.Rows[i] })
			done = append(done, "shuffle:"+t.Name)
		case 8: // duplicate a row (fresh tag)
			t := pickTable()
			if t == nil {
				continue
			}
			row := append([]string(nil), t.Rows[r.Intn(len(t.Rows))]...)
			if tc, ok := TagColumns[t.Name]; ok {
				if ci := t.Col(tc); ci >= 0 {
					row[ci] = tagFor(t.Name, 500000+len(t.Rows)+k)
				}
			}
			t.InsertRow(r.Intn(len(t.Rows)+1), row)
			done = append(done, "dup-row:"+t.Name)
		case 9: // delete a row
			t := pickTable()
			if t == nil {
				continue
			}
			i := r.Intn(len(t.Rows))
			t.Rows = append(t.Rows[:i], t.Rows[i+1:]...)
			done = append(done, "del-row:"+t.Name)
		case 10: // rejected row with blank id but live references (the row itself must stay inert)
			t := a.Table("stops.txt")
			if t == nil || len(t.Rows) == 0 {
				continue
			}
			row := make([]string, len(t.Header))
			if pc := t.Col("parent_station"); pc >= 0 {
				row[pc] = t.Rows[r.Intn(len(t.Rows))][t.Col("stop_id")]
			}
			if dc := t.Col("stop_desc"); dc >= 0 {
				row[dc] = tagFor("stops.txt", 700000+k)
			}
			t.InsertRow(r.Intn(len(t.Rows)+1), row)
			done = append(done, "blank-id-stop-with-parent")
		case 11: // stop_times row for an unknown trip between known ones
			t := a.Table("stop_times.txt")
			if t == nil || len(t.Rows) == 0 {
				continue
			}
			row := append([]string(nil), t.Rows[r.Intn(len(t.Rows))]...)
			row[t.Col("trip_id")] = core.Pick(r, []string{"nope", ""})
			row[t.Col("stop_headsign")] = tagFor("stop_times.txt", 800000+k)
			t.InsertRow(r.Intn(len(t.Rows)+1), row)
			done = append(done, "stop-time-unknown-trip")
		}
	}
	return done
}
