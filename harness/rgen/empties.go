package rgen

import (
	"google.golang.org/protobuf/proto"
	"google.golang.org/protobuf/reflect/protoreflect"

	"verifharness/core"
)

// AddEmptySubmessages walks a protobuf message (extension fields included) and, with probability
// num/den per site, sets unset singular sub-messages to an EMPTY message and appends an empty
// element to repeated sub-message fields ("present but empty"). Sub-message types that have
// proto2 required fields are skipped (an empty one would make the whole message undecodable).
// Returns the number of sites changed.
func AddEmptySubmessages(r *core.Rand, m proto.Message, num, den int) int {
	return addEmpties(r, m.ProtoReflect(), num, den, 0)
}

func addEmpties(r *core.Rand, m protoreflect.Message, num, den, depth int) int {
	if depth > 6 {
		return 0
	}
	n := 0
	fields := m.Descriptor().Fields()
	for i := 0; i < fields.Len(); i++ {
		fd := fields.Get(i)
		if fd.Kind() != protoreflect.MessageKind || fd.IsMap() {
			continue
		}
		if fd.Message().RequiredNumbers().Len() > 0 {
			// recurse into existing values only
			if fd.IsList() {
				l := m.Get(fd).List()
				for k := 0; k < l.Len(); k++ {
					n += addEmpties(r, l.Get(k).Message(), num, den, depth+1)
				}
			} else if m.Has(fd) {
				n += addEmpties(r, m.Get(fd).Message(), num, den, depth+1)
			}
			continue
		}
		if fd.IsList() {
			l := m.Mutable(fd).List()
			for k := 0; k < l.Len(); k++ {
				n += addEmpties(r, l.Get(k).Message(), num, den, depth+1)
			}
			if r.Chance(num, den) {
				l.Append(l.NewElement())
				n++
			}
			continue
		}
		if m.Has(fd) {
			n += addEmpties(r, m.Get(fd).Message(), num, den, depth+1)
		} else if r.Chance(num, den) {
			m.Set(fd, protoreflect.ValueOfMessage(m.NewField(fd).Message()))
			n++
		}
	}
	// extension fields that are set (NYCT / Mercury payloads)
	m.Range(func(fd protoreflect.FieldDescriptor, v protoreflect.Value) bool {
		if fd.IsExtension() && fd.Kind() == protoreflect.MessageKind && !fd.IsList() {
			n += addEmpties(r, v.Message(), num, den, depth+1)
		}
		return true
	})
	return n
}
