package rgen

import (
	"google.golang.org/protobuf/proto"
	"google.golang.org/protobuf/reflect/protoreflect"
	"sort"

	"verifharness/core"
)

// AddEmptySubmessages walks a protobuf message (extension fields included) and, with probability
// num/den per site, sets unset singular sub-messages to an EMPTY message and appends an empty
// element to repeated sub-message fields ("present but empty"). Sub-message types that have
// proto2 required fields are skipped (an empty one would make the whole message undecodable).
// Returns the number of sites changed.
func AddEmptySubmessages(r *core.Rand, m proto.Message, num, den int) int {
	return addEmpties(r, m.ProtoReflect(), num, den, 0)
}

// setFields returns the populated fields of m in a defined order (known fields by number, then extensions by number and
// name). protoreflect's Range visits them "in an undefined order" - it differs between Go releases - and the generators
// draw random numbers per field, so the order must not be left to it.
func setFields(m protoreflect.Message) []protoreflect.FieldDescriptor {
	var fds []protoreflect.FieldDescriptor
	m.Range(func(fd protoreflect.FieldDescriptor, _ protoreflect.Value) bool {
		fds = append(fds, fd)
		return true
	})
	sort.Slice(fds, func(i, j int) bool {
		a, b := fds[i], fds[j]
		if a.IsExtension() != b.IsExtension() {
			return !a.IsExtension()
		}
		if a.Number() != b.Number() {
			return a.Number() < b.Number()
		}
		return a.FullName() < b.FullName()
	})
	return fds
}

func addEmpties(r *core.Rand, m protoreflect.Message, num, den, depth int) int {
	if depth > 6 {
		return 0
	}
	n := 0
	fields := m.Descriptor().Fields()
	for i := 0; i < fields.Len(); i++ {
		fd := fields.Get(i)
		if fd.Kind() != protoreflect.MessageKind || fd.IsMap() {
			continue
		}
		if fd.Message().RequiredNumbers().Len() > 0 {
			// recurse into existing values only
			if fd.IsList() {
				l := m.Get(fd).List()
				for k := 0; k < l.Len(); k++ {
					n += addEmpties(r, l.Get(k).Message(), num, den, depth+1)
				}
			} else if m.Has(fd) {
				n += addEmpties(r, m.Get(fd).Message(), num, den, depth+1)
			}
			continue
		}
		if fd.IsList() {
			l := m.Mutable(fd).List()
			for k := 0; k < l.Len(); k++ {
				n += addEmpties(r, l.Get(k).Message(), num, den, depth+1)
			}
			if r.Chance(num, den) {
				l.Append(l.NewElement())
				n++
			}
			continue
		}
		if m.Has(fd) {
			n += addEmpties(r, m.Get(fd).Message(), num, den, depth+1)
		} else if r.Chance(num, den) {
			m.Set(fd, protoreflect.ValueOfMessage(m.NewField(fd).Message()))
			n++
		}
	}
	// extension fields that are set (NYCT / Mercury payloads)
	for _, fd := range setFields(m) {
		if fd.IsExtension() && fd.Kind() == protoreflect.MessageKind && !fd.IsList() {
			n += addEmpties(r, m.Get(fd).Message(), num, den, depth+1)
		}
	}
	return n
}

// OddTexts are strings with unusual content: far more bytes than characters, far more characters than a small
// buffer, invalid UTF-8, NUL and other control characters, separators. (proto2 strings are not validated.)
var OddTexts = []string{
	"月月月月月月月月月月月月月月月月月月月月月月月月月月月月月月月月月月月月月月月月月月月月月月月月月月月月月月月月月月月月月月月月月月月月月月月月月月月月月月月月月月月月月月月月月月月月月月月月月月月月",
	"éxéxéxéxéxéxéxéxéxéxéxéxéxéxéxéxéxéxéxéxéxéxéxéxéxéxéxéxéxéxéxéxéxéxéxéxéxéxéxéxéxéxéxéxéxéxéxéxéxéxéxéxéxéxéxéxéxéxéxéxéxéxéxéxéxéxéxéxéxéxéxéxéxéxéxéxéxéxéxéxéxéxéxéxéxéxéxéxéxéxéxéxéxéxéxéxéxéxéxéxéxéxéxéxéxéxéxéxéxéxéxéxéxéxéxéxéxéxéxéxéxéxéxéxéxéxéxéxéxéxéxéxéxéxéxéxéxéxéxéxéxéxéxéxéxéxéxéxéx",
	"\xff\xfe\xfd", "a\x00b", "\x00", "a\x1fb", "\x1f", "caf\xe9", "\xc3", "\u202e", "\ufeffbom", "  ", "\r\n", "٣٤", "Ⅻ", "½",
}

// SetOddStrings walks a protobuf message (extension payloads included) and replaces string fields that are already
// set by an odd text with probability num/den per site; sometimes by a long ASCII text. Returns the number of sites changed.
func SetOddStrings(r *core.Rand, m proto.Message, num, den int) int {
	return setOdd(r, m.ProtoReflect(), num, den, 0)
}

func oddText(r *core.Rand) string {
	switch r.Intn(10) {
	case 0:
		n := core.Pick(r, []int{255, 256, 257, 300, 1024, 4097})
		b := make([]byte, n)
		for i := range b {
			b[i] = 'a' + byte(i%26)
		}
		return string(b)
	case 1:
		s := ""
		for i := 0; i < core.Pick(r, []int{90, 130, 260}); i++ {
			s += "日"
		}
		return s
	}
	return core.Pick(r, OddTexts)
}

func setOdd(r *core.Rand, m protoreflect.Message, num, den, depth int) int {
	if depth > 6 {
		return 0
	}
	n := 0
	for _, fd := range setFields(m) {
		v := m.Get(fd)
		switch {
		case fd.Kind() == protoreflect.StringKind && !fd.IsList():
			if r.Chance(num, den) {
				m.Set(fd, protoreflect.ValueOfString(oddText(r)))
				n++
			}
		case fd.Kind() == protoreflect.StringKind && fd.IsList():
			l := v.List()
			for k := 0; k < l.Len(); k++ {
				if r.Chance(num, den) {
					l.Set(k, protoreflect.ValueOfString(oddText(r)))
					n++
				}
			}
		case fd.Kind() == protoreflect.MessageKind && fd.IsList():
			l := v.List()
			for k := 0; k < l.Len(); k++ {
				n += setOdd(r, l.Get(k).Message(), num, den, depth+1)
			}
		case fd.Kind() == protoreflect.MessageKind && !fd.IsMap():
			n += setOdd(r, v.Message(), num, den, depth+1)
		}
	}
	return n
}

// Sibling returns a copy of m in which every scalar field that is set (extension payloads included) is changed with
// probability num/den: strings get a suffix, numbers move by one, booleans flip. FeedEntity.id is kept, so the copy
// names the same entities (and, field by field with probability 1-num/den, the same trips, vehicles, alerts, timestamps)
// with partly different content: the input that exposes state which survives a call and is keyed by too few fields.
func Sibling(r *core.Rand, m proto.Message, num, den int) proto.Message {
	c := proto.Clone(m)
	siblingWalk(r, c.ProtoReflect(), num, den, 0)
	return c
}

func siblingWalk(r *core.Rand, m protoreflect.Message, num, den, depth int) {
	if depth > 6 {
		return
	}
	isEntity := m.Descriptor().FullName() == "transit_realtime.FeedEntity"
	for _, fd := range setFields(m) {
		v := m.Get(fd)
		if fd.IsList() {
			if fd.Kind() == protoreflect.MessageKind {
				l := v.List()
				for k := 0; k < l.Len(); k++ {
					siblingWalk(r, l.Get(k).Message(), num, den, depth+1)
				}
			}
			continue
		}
		if fd.IsMap() || (isEntity && fd.Name() == "id") {
			continue
		}
		switch fd.Kind() {
		case protoreflect.MessageKind:
			siblingWalk(r, v.Message(), num, den, depth+1)
		case protoreflect.StringKind:
			if r.Chance(num, den) {
				m.Set(fd, protoreflect.ValueOfString(v.String()+"'"))
			}
		case protoreflect.Int32Kind, protoreflect.Sint32Kind, protoreflect.Sfixed32Kind:
			if r.Chance(num, den) && v.Int() < 1<<30 {
				m.Set(fd, protoreflect.ValueOfInt32(int32(v.Int())+1))
			}
		case protoreflect.Int64Kind, protoreflect.Sint64Kind, protoreflect.Sfixed64Kind:
			if r.Chance(num, den) && v.Int() < 1<<62 {
				m.Set(fd, protoreflect.ValueOfInt64(v.Int()+1))
			}
		case protoreflect.Uint32Kind, protoreflect.Fixed32Kind:
			if r.Chance(num, den) && v.Uint() < 1<<31 {
				m.Set(fd, protoreflect.ValueOfUint32(uint32(v.Uint())+1))
			}
		case protoreflect.Uint64Kind, protoreflect.Fixed64Kind:
			if r.Chance(num, den) && v.Uint() < 1<<63 {
				m.Set(fd, protoreflect.ValueOfUint64(v.Uint()+1))
			}
		case protoreflect.FloatKind:
			if r.Chance(num, den) {
				m.Set(fd, protoreflect.ValueOfFloat32(float32(v.Float())+1))
			}
		case protoreflect.DoubleKind:
			if r.Chance(num, den) {
				m.Set(fd, protoreflect.ValueOfFloat64(v.Float()+1))
			}
		case protoreflect.BoolKind:
			if r.Chance(num, den) {
				m.Set(fd, protoreflect.ValueOfBool(!v.Bool()))
			}
		}
	}
}
