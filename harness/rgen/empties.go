package rgen

import (
	"google.golang.org/protobuf/proto"
	"google.golang.org/protobuf/reflect/protoreflect"

	"verifharness/core"
)

// AddEmptySubmessages walks a protobuf message (extension fields included) and, with probability
// num/den per site, sets unset singular sub-messages to an EMPTY message and appends an empty
// element to repeated sub-message fields ("present but empty"). Sub-message types that have
// proto2 required fields are skipped (an empty one would make the whole message undecodable).
// Returns the number of sites changed.
func AddEmptySubmessages(r *core.Rand, m proto.Message, num, den int) int {
	return addEmpties(r, m.ProtoReflect(), num, den, 0)
}

func addEmpties(r *core.Rand, m protoreflect.Message, num, den, depth int) int {
	if depth > 6 {
		return 0
	}
	n := 0
	fields := m.Descriptor().Fields()
	for i := 0; i < fields.Len(); i++ {
		fd := fields.Get(i)
		if fd.Kind() != protoreflect.MessageKind || fd.IsMap() {
			continue
		}
		if fd.Message().RequiredNumbers().Len() > 0 {
			// recurse into existing values only
			if fd.IsList() {
				l := m.Get(fd).List()
				for k := 0; k < l.Len(); k++ {
					n += addEmpties(r, l.Get(k).Message(), num, den, depth+1)
				}
			} else if m.Has(fd) {
				n += addEmpties(r, m.Get(fd).Message(), num, den, depth+1)
			}
			continue
		}
		if fd.IsList() {
			l := m.Mutable(fd).List()
			for k := 0; k < l.Len(); k++ {
				n += addEmpties(r, l.Get(k).Message(), num, den, depth+1)
			}
			if r.Chance(num, den) {
				l.Append(l.NewElement())
				n++
			}
			continue
		}
		if m.Has(fd) {
			n += addEmpties(r, m.Get(fd).Message(), num, den, depth+1)
		} else if r.Chance(num, den) {
			m.Set(fd, protoreflect.ValueOfMessage(m.NewField(fd).Message()))
			n++
		}
	}
	// extension fields that are set (NYCT / Mercury payloads)
	m.Range(func(fd protoreflect.FieldDescriptor, v protoreflect.Value) bool {
		if fd.IsExtension() && fd.Kind() == protoreflect.MessageKind && !fd.IsList() {
			n += addEmpties(r, v.Message(), num, den, depth+1)
		}
		return true
	})
	return n
}

// OddTexts are strings with unusual content: far more bytes than characters, far more characters than a small
// buffer, invalid UTF-8, NUL and other control characters, separators. (proto2 strings are not validated.)
var OddTexts = []string{
	"月月月月月月月月月月月月月月月月月月月月月月月月月月月月月月月月月月月月月月月月月月月月月月月月月月月月月月月月月月月月月月月月月月月月月月月月月月月月月月月月月月月月月月月月月月月月月月月月月月月月",
	"éxéxéxéxéxéxéxéxéxéxéxéxéxéxéxéxéxéxéxéxéxéxéxéxéxéxéxéxéxéxéxéxéxéxéxéxéxéxéxéxéxéxéxéxéxéxéxéxéxéxéxéxéxéxéxéxéxéxéxéxéxéxéxéxéxéxéxéxéxéxéxéxéxéxéxéxéxéxéxéxéxéxéxéxéxéxéxéxéxéxéxéxéxéxéxéxéxéxéxéxéxéxéxéxéxéxéxéxéxéxéxéxéxéxéxéxéxéxéxéxéxéxéxéxéxéxéxéxéxéxéxéxéxéxéxéxéxéxéxéxéxéxéxéxéxéxéxéxéx",
	"\xff\xfe\xfd", "a\x00b", "\x00", "a\x1fb", "\x1f", "caf\xe9", "\xc3", "\u202e", "\ufeffbom", "  ", "\r\n", "٣٤", "Ⅻ", "½",
}

// SetOddStrings walks a protobuf message (extension payloads included) and replaces string fields that are already
// set by an odd text with probability num/den per site; sometimes by a long ASCII text. Returns the number of sites changed.
func SetOddStrings(r *core.Rand, m proto.Message, num, den int) int {
	return setOdd(r, m.ProtoReflect(), num, den, 0)
}

func oddText(r *core.Rand) string {
	switch r.Intn(10) {
	case 0:
		n := core.Pick(r, []int{255, 256, 257, 300, 1024, 4097})
		b := make([]byte, n)
		for i := range b {
			b[i] = 'a' + byte(i%26)
		}
		return string(b)
	case 1:
		s := ""
		for i := 0; i < core.Pick(r, []int{90, 130, 260}); i++ {
			s += "日"
		}
		return s
	}
	return core.Pick(r, OddTexts)
}

func setOdd(r *core.Rand, m protoreflect.Message, num, den, depth int) int {
	if depth > 6 {
		return 0
	}
	n := 0
	m.Range(func(fd protoreflect.FieldDescriptor, v protoreflect.Value) bool {
		switch {
		case fd.Kind() == protoreflect.StringKind && !fd.IsList():
			if r.Chance(num, den) {
				m.Set(fd, protoreflect.ValueOfString(oddText(r)))
				n++
			}
		case fd.Kind() == protoreflect.StringKind && fd.IsList():
			l := v.List()
			for k := 0; k < l.Len(); k++ {
				if r.Chance(num, den) {
					l.Set(k, protoreflect.ValueOfString(oddText(r)))
					n++
				}
			}
		case fd.Kind() == protoreflect.MessageKind && fd.IsList():
			l := v.List()
			for k := 0; k < l.Len(); k++ {
				n += setOdd(r, l.Get(k).Message(), num, den, depth+1)
			}
		case fd.Kind() == protoreflect.MessageKind && !fd.IsMap():
			n += setOdd(r, v.Message(), num, den, depth+1)
		}
		return true
	})
	return n
}
