// Package rgen generates conflict-free GTFS-realtime feed messages (as protobuf
// structs, marshalled with protobuf-go) and transcribes them, independently of
// the parser, into the expected *gtfs.Realtime.
package rgen

import (
	"fmt"
	"math"

	gtfsrt "github.com/jamespfennell/gtfs/proto"
	"google.golang.org/protobuf/proto"

	"verifharness/core"
)

func S(s string) *string   { return &s }
func U32(v uint32) *uint32 { return &v }
func U64(v uint64) *uint64 { return &v }
func I32(v int32) *int32   { return &v }
func I64(v int64) *int64   { return &v }
func F32(v float32) *float32 {
	return &v
}
func F64(v float64) *float64 { return &v }

// TripSpec is one trip of the feed's universe; every mention uses Desc.
type TripSpec struct {
	Desc         *gtfsrt.TripDescriptor
	Key          string
	Identifiable bool // trip_id, or route+direction+start_time+start_date
}

// VehSpec is one vehicle of the feed's universe; every mention uses Desc.
type VehSpec struct {
	Desc *gtfsrt.VehicleDescriptor
	Key  string
}

// Feed is a generated message plus the bookkeeping the monitors need.
type Feed struct {
	Msg   *gtfsrt.FeedMessage
	Trips []TripSpec
	Vehs  []VehSpec
	// Assoc maps a trip index to its vehicle index (id-bearing vehicles).
	Assoc map[int]int
	// TripEntity / VehEntity give the index into Msg.Entity of the own entity, or -1.
	TripEntity []int
	VehEntity  []int
	// IDLess lists entity indexes of vehicle positions without a usable descriptor,
	// with the associated trip index or -1.
	IDLess     []int
	IDLessTrip []int
	Features   []string
}

func (f *Feed) feat(s string) { f.Features = append(f.Features, s) }

// DescKey is a canonical rendering of what a trip descriptor says (an absent
// string and an empty one, an absent schedule relationship and SCHEDULED are the same).
func DescKey(d *gtfsrt.TripDescriptor) string {
	p := func(s *string) string {
		if s == nil {
			return "-"
		}
		return fmt.Sprintf("%q", *s)
	}
	dir := "-"
	if d.DirectionId != nil {
		dir = fmt.Sprint(*d.DirectionId)
	}
	return fmt.Sprintf("%q|%q|%s|%s|%s|%d", d.GetTripId(), d.GetRouteId(), dir, p(d.StartTime), p(d.StartDate), int32(d.GetScheduleRelationship()))
}

// Identifiable mirrors the statement: a trip id, or route + direction + start time + start date.
func Identifiable(d *gtfsrt.TripDescriptor) bool {
	if d == nil {
		return false
	}
	if d.GetTripId() != "" {
		return true
	}
	return d.GetRouteId() != "" && d.DirectionId != nil && d.StartTime != nil && d.StartDate != nil
}

// The pools hold strings that differ only in case or in leading / trailing whitespace: distinct identifiers, verbatim.
var idPool = []string{"t", "T", "1", "10", "trip", "é", "a b", "x,y", "0", "A1", "zz", "R", " t", "t "}
var routePool = []string{"A", "B", "M", "1", "é", "Q", "R 1", "A ", "a"}
var stopPool = []string{"S1", "S2", "M11N", "A27S", "é1", "", "L03", "x", "S1 ", "s1"}

// StartDates used by generated descriptors (includes DST switch days of several zones).
var StartDates = []string{"20240115", "20240310", "20241103", "20230312", "20230326", "20181104", "19991231", "20240229", "20380119", "19700101", "20220911", "20241006",
	// rare values: first and last representable civil dates, century leap day, the day before the epoch
	"00010101", "00010102", "99991231", "20000229", "21000228", "19691231", "19000301", "16000229"}

func startTime(r *core.Rand) string {
	h := r.Intn(28)
	if r.Chance(1, 8) {
		h = 28 + r.Intn(72)
	}
	return fmt.Sprintf("%02d:%02d:%02d", h, r.Intn(60), r.Intn(60))
}

// GenTripDesc draws a descriptor with every presence combination possible.
func GenTripDesc(r *core.Rand, n int) *gtfsrt.TripDescriptor {
	d := &gtfsrt.TripDescriptor{}
	if r.Chance(2, 3) {
		k := n
		if n > 0 && r.Chance(1, 4) {
			k = r.Intn(n) // the same trip_id as another trip, told apart by the other descriptor fields
		}
		d.TripId = S(fmt.Sprintf("%s%d", idPool[k%len(idPool)], k))
		if r.Chance(1, 12) {
			d.TripId = S("") // present but empty
		}
	}
	if r.Bool() {
		d.RouteId = S(core.Pick(r, routePool))
	}
	if r.Bool() {
		d.DirectionId = U32(uint32(r.Intn(2)))
	}
	if r.Bool() {
		d.StartTime = S(startTime(r))
	}
	if r.Bool() {
		d.StartDate = S(core.Pick(r, StartDates))
	}
	if r.Chance(1, 3) {
		sr := gtfsrt.TripDescriptor_ScheduleRelationship(core.Pick(r, []int32{0, 1, 2, 3, 5, 6, 7}))
		d.ScheduleRelationship = &sr
	}
	return d
}

// GenVehDesc draws a non-empty vehicle descriptor (id, label only, plate only, or mixtures).
// Strings come from small pools shared by all three fields, so distinct vehicles
// often carry the same text in different fields or splits of the same digits.
func GenVehDesc(r *core.Rand, n int) *gtfsrt.VehicleDescriptor {
	d := &gtfsrt.VehicleDescriptor{}
	pool := []string{"7001", "70", "01", "7", "001", "700", "1", "same", fmt.Sprintf("v%d", n), fmt.Sprintf("é%d", n),
		"7001 ", " 7001", "Same", "same\t", " "}
	switch r.Intn(7) {
	case 0:
		d.Label = S(core.Pick(r, pool))
	case 1:
		d.LicensePlate = S(core.Pick(r, pool))
	case 2:
		d.Id = S(core.Pick(r, pool))
		d.Label = S(core.Pick(r, append([]string{""}, pool...)))
	case 3:
		d.Id = S(core.Pick(r, pool))
		d.Label = S(core.Pick(r, pool))
		d.LicensePlate = S(core.Pick(r, append([]string{""}, pool...)))
	case 4:
		d.Label = S(core.Pick(r, pool))
		d.LicensePlate = S(core.Pick(r, pool))
	default:
		d.Id = S(core.Pick(r, pool))
	}
	return d
}

func vehKey(d *gtfsrt.VehicleDescriptor) string {
	return fmt.Sprintf("%q|%q|%q", d.GetId(), d.GetLabel(), d.GetLicensePlate())
}

// Timestamp draws from the full uint64 range classes.
func Timestamp(r *core.Rand) uint64 {
	switch r.Intn(12) {
	case 0:
		return 0
	case 1:
		return 1
	case 2:
		return math.MaxInt32
	case 3:
		return uint64(math.MaxInt32) + 1
	case 4:
		return math.MaxUint32
	case 5:
		return uint64(math.MaxUint32) + 1
	case 6:
		return 253402300799 // 9999-12-31
	case 7:
		return 1 << 40
	case 8:
		// beyond int64: the instant wraps, but uint64(result.Unix()) must still be the wire value
		return core.Pick(r, []uint64{math.MaxInt64, math.MaxInt64 + 1, math.MaxUint64, math.MaxUint64 - 86400})
	default:
		return 1500000000 + uint64(r.Intn(400000000))
	}
}

func Time64(r *core.Rand) int64 {
	switch r.Intn(10) {
	case 0:
		return 0
	case 1:
		return -1
	case 2:
		return math.MaxInt32 + 1
	case 3:
		return -86400 * 365
	default:
		return 1500000000 + int64(r.Intn(400000000))
	}
}

func Delay32(r *core.Rand) int32 {
	switch r.Intn(8) {
	case 0:
		return 0
	case 1:
		return -1
	case 2:
		return math.MaxInt32
	case 3:
		return math.MinInt32
	default:
		return int32(r.Intn(7200)) - 600
	}
}

func Float32v(r *core.Rand) float32 {
	switch r.Intn(10) {
	case 0:
		return 0
	case 1:
		return float32(math.Copysign(0, -1))
	case 2:
		return float32(math.NaN())
	case 3:
		return math.SmallestNonzeroFloat32
	case 4:
		return math.MaxFloat32
	case 5:
		return float32(math.Inf(-1))
	default:
		return float32(r.Float64()*360 - 180)
	}
}

func GenEvent(r *core.Rand) *gtfsrt.TripUpdate_StopTimeEvent {
	if r.Chance(1, 4) {
		return nil
	}
	e := &gtfsrt.TripUpdate_StopTimeEvent{}
	if r.Bool() {
		e.Time = I64(Time64(r))
	}
	if r.Bool() {
		e.Delay = I32(Delay32(r))
	}
	if r.Bool() {
		e.Uncertainty = I32(Delay32(r))
	}
	return e
}

func GenStopTimeUpdate(r *core.Rand, k int) *gtfsrt.TripUpdate_StopTimeUpdate {
	u := &gtfsrt.TripUpdate_StopTimeUpdate{Arrival: GenEvent(r), Departure: GenEvent(r)}
	if r.Bool() {
		u.StopSequence = U32(uint32(k + r.Intn(3)))
		if r.Chance(1, 10) {
			u.StopSequence = U32(math.MaxUint32)
		}
	}
	if r.Chance(3, 4) {
		u.StopId = S(core.Pick(r, stopPool))
	}
	if r.Chance(1, 3) {
		sr := gtfsrt.TripUpdate_StopTimeUpdate_ScheduleRelationship(core.Pick(r, []int32{0, 1, 2, 3}))
		u.ScheduleRelationship = &sr
	}
	if r.Chance(1, 6) {
		// a field of the message that the library does not surface: it must not leak into the fields it does surface
		// (a stop_id that is absent stays absent even when a real-time platform assignment is given)
		u.StopTimeProperties = &gtfsrt.TripUpdate_StopTimeUpdate_StopTimeProperties{AssignedStopId: S(fmt.Sprintf("assigned-platform-%d", k))}
	}
	return u
}

func GenPosition(r *core.Rand) *gtfsrt.Position {
	p := &gtfsrt.Position{Latitude: F32(Float32v(r)), Longitude: F32(Float32v(r))}
	if r.Bool() {
		p.Bearing = F32(Float32v(r))
	}
	if r.Bool() {
		p.Odometer = F64(float64(Float32v(r)) * 1000.123)
	}
	if r.Bool() {
		p.Speed = F32(Float32v(r))
	}
	return p
}

// FillVehiclePosition sets every optional field independently; uniq makes the
// position recognisable (stop id / timestamp) for id-less vehicles.
func FillVehiclePosition(r *core.Rand, vp *gtfsrt.VehiclePosition, uniq int) {
	if r.Chance(3, 4) {
		vp.Position = GenPosition(r)
	}
	if r.Bool() {
		vp.CurrentStopSequence = U32(uint32(r.Intn(50)))
	}
	vp.StopId = S(fmt.Sprintf("vp-stop-%d", uniq))
	if r.Bool() {
		s := gtfsrt.VehiclePosition_VehicleStopStatus(r.Intn(3))
		vp.CurrentStatus = &s
	}
	if r.Chance(3, 4) {
		vp.Timestamp = U64(Timestamp(r))
	}
	if r.Bool() {
		s := gtfsrt.VehiclePosition_CongestionLevel(r.Intn(5))
		vp.CongestionLevel = &s
	}
	if r.Bool() {
		s := gtfsrt.VehiclePosition_OccupancyStatus(r.Intn(9))
		vp.OccupancyStatus = &s
	}
	if r.Bool() {
		vp.OccupancyPercentage = U32(uint32(r.Intn(150)))
	}
}

func GenTranslated(r *core.Rand) *gtfsrt.TranslatedString {
	if r.Chance(1, 3) {
		return nil
	}
	ts := &gtfsrt.TranslatedString{}
	n := r.Intn(3)
	for i := 0; i < n; i++ {
		t := &gtfsrt.TranslatedString_Translation{Text: S(core.Pick(r, []string{"", "Delays", "Línea é", "a\nb", "<b>x</b>"}))}
		if r.Bool() {
			t.Language = S(core.Pick(r, []string{"en", "es", "en-html", ""}))
		}
		ts.Translation = append(ts.Translation, t)
	}
	return ts
}

// GenAlertBody fills cause, effect, periods and texts of an alert.
func GenAlertBody(r *core.Rand, a *gtfsrt.Alert) {
	if r.Bool() {
		c := gtfsrt.Alert_Cause(1 + r.Intn(12))
		a.Cause = &c
	}
	if r.Bool() {
		e := gtfsrt.Alert_Effect(1 + r.Intn(11))
		a.Effect = &e
	}
	n := r.Intn(3)
	for i := 0; i < n; i++ {
		p := &gtfsrt.TimeRange{}
		if r.Bool() {
			p.Start = U64(Timestamp(r))
		}
		if r.Bool() {
			p.End = U64(Timestamp(r))
		}
		a.ActivePeriod = append(a.ActivePeriod, p)
	}
	a.HeaderText = GenTranslated(r)
	a.DescriptionText = GenTranslated(r)
	a.Url = GenTranslated(r)
}

// Opts controls GenFeed.
type Opts struct {
	MaxTrips, MaxVehs, MaxAlerts, MaxIDLess int
	// PassThroughSelectorsOnly restricts alert selectors to ones that are kept 1:1
	// (C02 leaves normalisation to C12).
	PassThroughSelectorsOnly bool
	// Exact sizes (0 = draw up to the Max* value). Used by the size-threshold sweeps.
	ExactTrips, ExactVehs, ExactIDLess, ExactAlerts, ExactSelectors, ExactStopTimeUpdates int
	// TripUpdateChancePct is the percentage of trips that get a trip update of their own (0 = 75).
	TripUpdateChancePct int
}

// GenFeed draws a conflict-free message: one descriptor per trip/vehicle across
// all mentions, at most one own entity per trip/vehicle, one-to-one associations,
// exactly one payload per entity, required proto fields set.
func GenFeed(r *core.Rand, o Opts) *Feed {
	f := &Feed{Msg: &gtfsrt.FeedMessage{Header: &gtfsrt.FeedHeader{GtfsRealtimeVersion: S(core.Pick(r, []string{"2.0", "1.0"}))}}, Assoc: map[int]int{}}
	if r.Chance(5, 6) {
		f.Msg.Header.Timestamp = U64(Timestamp(r))
	} else {
		f.feat("no-header-timestamp")
	}
	if r.Chance(1, 3) {
		inc := gtfsrt.FeedHeader_Incrementality(r.Intn(2))
		f.Msg.Header.Incrementality = &inc
	}
	nT := r.Intn(o.MaxTrips + 1)
	if o.ExactTrips > 0 {
		nT = o.ExactTrips
	}
	seen := map[string]bool{}
	for i := 0; i < nT; i++ {
		d := GenTripDesc(r, i)
		if len(f.Trips) > 0 && r.Chance(1, 3) {
			// a sibling of an earlier trip: the same descriptor except for ONE aspect, so that
			// identifiers that are easy to conflate (absent vs 00:00:00, absent vs direction 0) occur together
			d = proto.Clone(core.Pick(r, f.Trips).Desc).(*gtfsrt.TripDescriptor)
			switch r.Intn(5) {
			case 0:
				if d.StartTime == nil {
					d.StartTime = S("00:00:00")
				} else {
					d.StartTime = nil
				}
			case 1:
				if d.StartDate == nil {
					d.StartDate = S("19700101")
				} else {
					d.StartDate = nil
				}
			case 2:
				switch {
				case d.DirectionId == nil:
					d.DirectionId = U32(0)
				case *d.DirectionId == 0:
					d.DirectionId = U32(1)
				default:
					d.DirectionId = nil
				}
			case 3:
				sr := gtfsrt.TripDescriptor_ScheduleRelationship((int32(d.GetScheduleRelationship()) + 1) % 4)
				d.ScheduleRelationship = &sr
			default:
				if d.GetRouteId() == "" {
					d.RouteId = S("A")
				} else {
					d.RouteId = nil
				}
			}
			f.feat("sibling-trip-descriptor")
		}
		k := DescKey(d)
		if seen[k] {
			continue
		}
		seen[k] = true
		f.Trips = append(f.Trips, TripSpec{Desc: d, Key: k, Identifiable: Identifiable(d)})
	}
	nV := r.Intn(o.MaxVehs + 1)
	if o.ExactVehs > 0 {
		nV = o.ExactVehs
	}
	vseen := map[string]bool{}
	for i := 0; i < nV; i++ {
		d := GenVehDesc(r, i)
		if o.ExactVehs > 0 && i >= 8 {
			d = &gtfsrt.VehicleDescriptor{Id: S(fmt.Sprintf("veh-%d", i))}
		}
		k := vehKey(d)
		if vseen[k] {
			continue
		}
		vseen[k] = true
		f.Vehs = append(f.Vehs, VehSpec{Desc: d, Key: k})
	}
	// associations
	vperm := r.Perm(len(f.Vehs))
	vi := 0
	for ti := range f.Trips {
		if vi < len(vperm) && r.Bool() {
			f.Assoc[ti] = vperm[vi]
			vi++
		}
	}
	// accidental equality across fields: a vehicle whose only identifier is the trip_id of the trip it serves
	// (rail producers do copy trip_id into vehicle.id); it is a vehicle like any other
	for ti := 0; ti < len(f.Trips); ti++ {
		v, ok := f.Assoc[ti]
		if !ok || !r.Chance(1, 6) || f.Trips[ti].Desc.GetTripId() == "" {
			continue
		}
		d := &gtfsrt.VehicleDescriptor{Id: S(f.Trips[ti].Desc.GetTripId())}
		if k := vehKey(d); !vseen[k] {
			vseen[k] = true
			f.Vehs[v] = VehSpec{Desc: d, Key: k}
			f.feat("vehicle-id-equals-trip-id")
		}
	}
	vehTrip := map[int]int{}
	for t, v := range f.Assoc {
		vehTrip[v] = t
	}
	type ent struct {
		e    *gtfsrt.FeedEntity
		trip int
		veh  int
		idl  bool
	}
	var ents []ent
	clone := func(d *gtfsrt.TripDescriptor) *gtfsrt.TripDescriptor { return proto.Clone(d).(*gtfsrt.TripDescriptor) }
	vclone := func(d *gtfsrt.VehicleDescriptor) *gtfsrt.VehicleDescriptor {
		return proto.Clone(d).(*gtfsrt.VehicleDescriptor)
	}
	expressed := map[int]bool{} // trip index -> association expressed by some entity
	for ti := range f.Trips {
		v, assoc := f.Assoc[ti]
		pct := o.TripUpdateChancePct
		if pct == 0 {
			pct = 75
		}
		if !(r.Intn(100) < pct || assoc) {
			continue
		}
		tu := &gtfsrt.TripUpdate{Trip: clone(f.Trips[ti].Desc)}
		ns := r.Intn(5)
		if o.ExactStopTimeUpdates > 0 && ti == 0 {
			ns = o.ExactStopTimeUpdates
		}
		for k := 0; k < ns; k++ {
			tu.StopTimeUpdate = append(tu.StopTimeUpdate, GenStopTimeUpdate(r, k))
		}
		if r.Chance(1, 3) {
			tu.Timestamp = U64(Timestamp(r))
		}
		if r.Chance(1, 4) {
			tu.Delay = I32(Delay32(r))
		}
		if assoc && r.Chance(2, 3) {
			tu.Vehicle = vclone(f.Vehs[v].Desc)
			expressed[ti] = true
			f.feat("assoc-via-trip-update")
		}
		ents = append(ents, ent{e: &gtfsrt.FeedEntity{TripUpdate: tu}, trip: ti, veh: -1})
	}
	for vj := range f.Vehs {
		t, assoc := vehTrip[vj]
		mustExpress := assoc && !expressed[t]
		if !(r.Chance(2, 3) || mustExpress) {
			continue
		}
		vp := &gtfsrt.VehiclePosition{Vehicle: vclone(f.Vehs[vj].Desc)}
		FillVehiclePosition(r, vp, 1000+vj)
		if assoc && (mustExpress || r.Chance(2, 3)) {
			vp.Trip = clone(f.Trips[t].Desc)
			expressed[t] = true
			f.feat("assoc-via-vehicle-position")
		}
		ents = append(ents, ent{e: &gtfsrt.FeedEntity{Vehicle: vp}, trip: -1, veh: vj})
	}
	// id-less vehicle positions
	nI := 0
	if o.MaxIDLess > 0 {
		nI = r.Intn(o.MaxIDLess + 1)
	}
	if o.ExactIDLess > 0 {
		nI = o.ExactIDLess
	}
	for k := 0; k < nI; k++ {
		vp := &gtfsrt.VehiclePosition{}
		switch r.Intn(6) {
		case 0, 1:
			vp.Vehicle = &gtfsrt.VehicleDescriptor{} // present but empty
			f.feat("empty-vehicle-descriptor")
		case 2:
			// fields explicitly set to the empty string: still a vehicle without identifier, and not the same
			// vehicle as another one written that way
			vp.Vehicle = core.Pick(r, []*gtfsrt.VehicleDescriptor{{Id: S("")}, {Label: S("")}, {LicensePlate: S("")}, {Id: S(""), Label: S(""), LicensePlate: S("")}})
			f.feat("vehicle-descriptor-with-explicitly-empty-fields")
		}
		FillVehiclePosition(r, vp, 2000+k)
		trip := -1
		// associate with a trip that has no other vehicle
		for ti := range f.Trips {
			if _, a := f.Assoc[ti]; !a && !expressed[ti] && r.Chance(1, 3) {
				trip = ti
				expressed[ti] = true
				f.Assoc[ti] = -2 - k // negative: id-less vehicle k
				vp.Trip = clone(f.Trips[ti].Desc)
				f.feat("assoc-via-idless-vehicle")
				break
			}
		}
		ents = append(ents, ent{e: &gtfsrt.FeedEntity{Vehicle: vp}, trip: trip, veh: -1, idl: true})
	}
	// alerts
	nA := r.Intn(o.MaxAlerts + 1)
	if o.ExactAlerts > 0 {
		nA = o.ExactAlerts
	}
	for k := 0; k < nA; k++ {
		a := &gtfsrt.Alert{}
		GenAlertBody(r, a)
		ns := r.Intn(4)
		if o.ExactSelectors > 0 && k == 0 {
			ns = o.ExactSelectors
		}
		for j := 0; j < ns; j++ {
			sel := &gtfsrt.EntitySelector{}
			kind := r.Intn(6)
			if o.ExactSelectors > 0 && k == 0 && r.Chance(5, 6) {
				kind = 5 // mostly trip mentions: many trips known only through this alert
			}
			switch kind {
			case 0:
				sel.AgencyId = S(core.Pick(r, []string{"MTA", "", "é"}))
			case 1:
				sel.RouteId = S(core.Pick(r, routePool))
				if r.Bool() {
					sel.DirectionId = U32(uint32(r.Intn(2)))
				}
			case 2:
				sel.RouteType = I32(core.Pick(r, []int32{0, 1, 2, 3, 4, 5, 6, 7, 11, 12}))
			case 3:
				sel.StopId = S(core.Pick(r, stopPool))
				if r.Bool() {
					sel.AgencyId = S("MTA")
				}
			default:
				// an identifiable trip of the universe (same descriptor as elsewhere)
				var cands []int
				for ti := range f.Trips {
					if f.Trips[ti].Identifiable {
						cands = append(cands, ti)
					}
				}
				if len(cands) == 0 {
					sel.StopId = S("S1")
				} else {
					sel.Trip = clone(f.Trips[core.Pick(r, cands)].Desc)
					if r.Bool() {
						sel.StopId = S(core.Pick(r, stopPool))
					}
					f.feat("alert-mentions-trip")
				}
			}
			a.InformedEntity = append(a.InformedEntity, sel)
		}
		if !o.PassThroughSelectorsOnly {
			// selectors that are normalised away or rewritten are added by C12's generator
		}
		ents = append(ents, ent{e: &gtfsrt.FeedEntity{Alert: a}, trip: -1, veh: -1})
	}
	r.Shuffle(len(ents), func(i, j int) { ents[i], ents[j] = ents[j], ents[i] })
	f.TripEntity = make([]int, len(f.Trips))
	for i := range f.TripEntity {
		f.TripEntity[i] = -1
	}
	f.VehEntity = make([]int, len(f.Vehs))
	for i := range f.VehEntity {
		f.VehEntity[i] = -1
	}
	for i, en := range ents {
		en.e.Id = S(fmt.Sprintf("e%d", i))
		f.Msg.Entity = append(f.Msg.Entity, en.e)
		switch {
		case en.e.TripUpdate != nil:
			f.TripEntity[en.trip] = i
		case en.idl:
			f.IDLess = append(f.IDLess, i)
			f.IDLessTrip = append(f.IDLessTrip, en.trip)
		case en.e.Vehicle != nil:
			f.VehEntity[en.veh] = i
		}
	}
	// drop associations that no entity expresses
	for t := range f.Assoc {
		if !expressed[t] {
			delete(f.Assoc, t)
		}
	}
	// is_deleted only means something to a consumer that applies DIFFERENTIAL feeds to a stored data set; the parser
	// transcribes what the entity carries either way
	for _, e := range f.Msg.Entity {
		switch r.Intn(10) {
		case 0:
			e.IsDeleted = proto.Bool(true)
			f.feat("entity-flagged-is_deleted")
		case 1:
			e.IsDeleted = proto.Bool(false)
		}
	}
	// FeedEntity.id says nothing about trips and vehicles: two entities that (against the letter of GTFS-realtime) carry the
	// same id, or an empty one, still describe what they describe
	if n := len(f.Msg.Entity); n >= 2 && r.Chance(1, 8) {
		a, b := r.Intn(n), r.Intn(n)
		if a != b && f.Msg.Entity[a].Alert == nil && f.Msg.Entity[b].Alert == nil {
			if r.Bool() {
				f.Msg.Entity[b].Id = S(f.Msg.Entity[a].GetId())
			} else {
				f.Msg.Entity[a].Id, f.Msg.Entity[b].Id = S(""), S("")
			}
			f.feat("entities-sharing-one-entity-id")
		}
	}
	return f
}

// Marshal encodes the message.
func Marshal(m *gtfsrt.FeedMessage) []byte {
	b, err := proto.Marshal(m)
	if err != nil {
		panic(err)
	}
	return b
}

// Permute returns a copy of the message with its entities permuted.
func Permute(m *gtfsrt.FeedMessage, perm []int) *gtfsrt.FeedMessage {
	n := &gtfsrt.FeedMessage{Header: m.Header}
	for _, j := range perm {
		n.Entity = append(n.Entity, m.Entity[j])
	}
	return n
}
