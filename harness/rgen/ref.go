package rgen

import (
	"strconv"
	"time"

	"github.com/jamespfennell/gtfs"
	gtfsrt "github.com/jamespfennell/gtfs/proto"

	"verifharness/sgen"
)

// RefResult is the expected parse of a message.
type RefResult struct {
	RT *gtfs.Realtime
	// UnassertedDates counts start dates without a unique local midnight in the
	// zone at hand; when non-zero, callers neutralise TripID.StartDate on both sides.
	UnassertedDates int
	// TripKeys[i] is the descriptor key of RT.Trips[i]; VehKeys likewise ("" for id-less).
	TripKeys []string
	VehKeys  []string
	// OwnTrip / OwnVeh tell whether the trip / vehicle had an entity of its own.
	ownTrip map[string]bool
}

var rtRouteTypes = map[int32]gtfs.RouteType{
	0: gtfs.RouteType_Tram, 1: gtfs.RouteType_Subway, 2: gtfs.RouteType_Rail, 3: gtfs.RouteType_Bus, 4: gtfs.RouteType_Ferry,
	5: gtfs.RouteType_CableTram, 6: gtfs.RouteType_AerialLift, 7: gtfs.RouteType_Funicular, 11: gtfs.RouteType_TrolleyBus, 12: gtfs.RouteType_Monorail,
}

// RouteTypeOf maps a wire route type to the library constant (unknown numbers -> Unknown).
func RouteTypeOf(p *int32) gtfs.RouteType {
	if p == nil {
		return gtfs.RouteType_Unknown
	}
	if t, ok := rtRouteTypes[*p]; ok {
		return t
	}
	return gtfs.RouteType_Unknown
}

// DirectionOf maps wire direction 0/1 to False/True, absent to Unspecified.
func DirectionOf(p *uint32) gtfs.DirectionID {
	if p == nil {
		return gtfs.DirectionID_Unspecified
	}
	if *p == 0 {
		return gtfs.DirectionID_False
	}
	return gtfs.DirectionID_True
}

func zoneOrUTC(z *time.Location) *time.Location {
	if z == nil {
		return time.UTC
	}
	return z
}

func tsTime(p *uint64, z *time.Location) *time.Time {
	if p == nil {
		return nil
	}
	t := time.Unix(int64(*p), 0).In(z)
	return &t
}

// TripIDOf transcribes a descriptor. unasserted is incremented when the start
// date has no unique local midnight in z.
func TripIDOf(d *gtfsrt.TripDescriptor, z *time.Location, unasserted *int) gtfs.TripID {
	id := gtfs.TripID{
		ID:                   d.GetTripId(),
		RouteID:              d.GetRouteId(),
		DirectionID:          DirectionOf(d.DirectionId),
		ScheduleRelationship: d.GetScheduleRelationship(),
	}
	if d.StartTime != nil {
		s := *d.StartTime
		if len(s) == 8 && s[2] == ':' && s[5] == ':' {
			h, e1 := strconv.Atoi(s[0:2])
			m, e2 := strconv.Atoi(s[3:5])
			sec, e3 := strconv.Atoi(s[6:8])
			if e1 == nil && e2 == nil && e3 == nil {
				id.HasStartTime = true
				id.StartTime = time.Duration(h*3600+m*60+sec) * time.Second
			}
		}
	}
	if d.StartDate != nil && len(*d.StartDate) == 8 {
		y, e1 := strconv.Atoi((*d.StartDate)[0:4])
		m, e2 := strconv.Atoi((*d.StartDate)[4:6])
		dd, e3 := strconv.Atoi((*d.StartDate)[6:8])
		if e1 == nil && e2 == nil && e3 == nil {
			id.HasStartDate = true
			t, ok := sgen.Midnight(sgen.Date{Y: y, M: m, D: dd}, z)
			if !ok {
				*unasserted++
			}
			id.StartDate = t
		}
	}
	return id
}

func eventOf(e *gtfsrt.TripUpdate_StopTimeEvent, z *time.Location) *gtfs.StopTimeEvent {
	if e == nil {
		return nil
	}
	out := &gtfs.StopTimeEvent{}
	if e.Time != nil {
		t := time.Unix(*e.Time, 0).In(z)
		out.Time = &t
	}
	if e.Delay != nil {
		d := time.Duration(*e.Delay) * time.Second
		out.Delay = &d
	}
	if e.Uncertainty != nil {
		u := *e.Uncertainty
		out.Uncertainty = &u
	}
	return out
}

func cpS(p *string) *string {
	if p == nil {
		return nil
	}
	s := *p
	return &s
}
func cpU32(p *uint32) *uint32 {
	if p == nil {
		return nil
	}
	s := *p
	return &s
}

// VehicleIDOf transcribes a vehicle descriptor; an absent or all-empty one is nil.
func VehicleIDOf(d *gtfsrt.VehicleDescriptor) *gtfs.VehicleID {
	if d == nil {
		return nil
	}
	id := gtfs.VehicleID{ID: d.GetId(), Label: d.GetLabel(), LicensePlate: d.GetLicensePlate()}
	if id == (gtfs.VehicleID{}) {
		return nil
	}
	return &id
}

func textsOf(ts *gtfsrt.TranslatedString) []gtfs.AlertText {
	var out []gtfs.AlertText
	for _, t := range ts.GetTranslation() {
		out = append(out, gtfs.AlertText{Text: t.GetText(), Language: t.GetLanguage()})
	}
	return out
}

// TrackFunc lets extension-aware references supply the NYCT track of a stop time update.
type TrackFunc func(u *gtfsrt.TripUpdate_StopTimeUpdate) *string

// StopTimeUpdatesOf transcribes the stop time updates of a trip update.
func StopTimeUpdatesOf(tu *gtfsrt.TripUpdate, z *time.Location, track TrackFunc) []gtfs.StopTimeUpdate {
	var out []gtfs.StopTimeUpdate
	for _, u := range tu.StopTimeUpdate {
		x := gtfs.StopTimeUpdate{
			StopSequence: cpU32(u.StopSequence), StopID: cpS(u.StopId), Arrival: eventOf(u.Arrival, z), Departure: eventOf(u.Departure, z),
			ScheduleRelationship: u.GetScheduleRelationship(),
		}
		if track != nil {
			x.NyctTrack = track(u)
		}
		out = append(out, x)
	}
	return out
}

// VehicleOf transcribes a vehicle position entity (without links).
func VehicleOf(vp *gtfsrt.VehiclePosition, z *time.Location) gtfs.Vehicle {
	v := gtfs.Vehicle{ID: VehicleIDOf(vp.Vehicle), IsEntityInMessage: true, CongestionLevel: vp.GetCongestionLevel()}
	if p := vp.Position; p != nil {
		v.Position = &gtfs.Position{Latitude: p.Latitude, Longitude: p.Longitude, Bearing: p.Bearing, Odometer: p.Odometer, Speed: p.Speed}
	}
	v.CurrentStopSequence = cpU32(vp.CurrentStopSequence)
	v.StopID = cpS(vp.StopId)
	if vp.CurrentStatus != nil {
		s := *vp.CurrentStatus
		v.CurrentStatus = &s
	}
	v.Timestamp = tsTime(vp.Timestamp, z)
	if vp.OccupancyStatus != nil {
		s := *vp.OccupancyStatus
		v.OccupancyStatus = &s
	}
	v.OccupancyPercentage = cpU32(vp.OccupancyPercentage)
	return v
}

// AlertShellOf transcribes everything of an alert except its informed entities.
func AlertShellOf(id string, a *gtfsrt.Alert, z *time.Location) gtfs.Alert {
	out := gtfs.Alert{ID: id, Cause: a.GetCause(), Effect: a.GetEffect(), Header: textsOf(a.HeaderText), Description: textsOf(a.DescriptionText), URL: textsOf(a.Url)}
	for _, p := range a.ActivePeriod {
		out.ActivePeriods = append(out.ActivePeriods, gtfs.AlertActivePeriod{StartsAt: tsTime(p.Start, z), EndsAt: tsTime(p.End, z)})
	}
	return out
}

// Ref transcribes a conflict-free message whose alert selectors all pass through 1:1.
func Ref(m *gtfsrt.FeedMessage, zone *time.Location) *RefResult {
	z := zoneOrUTC(zone)
	res := &RefResult{RT: &gtfs.Realtime{}, ownTrip: map[string]bool{}}
	rt := res.RT
	if m.GetHeader().Timestamp != nil {
		rt.CreatedAt = time.Unix(int64(*m.Header.Timestamp), 0).In(z)
	}
	tripIdx := map[string]int{}
	getTrip := func(d *gtfsrt.TripDescriptor) *gtfs.Trip {
		k := DescKey(d)
		if i, ok := tripIdx[k]; ok {
			return &rt.Trips[i]
		}
		tripIdx[k] = len(rt.Trips)
		rt.Trips = append(rt.Trips, gtfs.Trip{ID: TripIDOf(d, z, &res.UnassertedDates)})
		res.TripKeys = append(res.TripKeys, k)
		return &rt.Trips[len(rt.Trips)-1]
	}
	vehIdx := map[gtfs.VehicleID]int{}
	var idless []gtfs.Vehicle
	var vehs []gtfs.Vehicle
	getVeh := func(id gtfs.VehicleID) int {
		if i, ok := vehIdx[id]; ok {
			return i
		}
		vehIdx[id] = len(vehs)
		cp := id
		vehs = append(vehs, gtfs.Vehicle{ID: &cp})
		return len(vehs) - 1
	}
	for _, e := range m.Entity {
		switch {
		case e.TripUpdate != nil:
			tu := e.TripUpdate
			t := getTrip(tu.Trip)
			t.IsEntityInMessage = true
			t.StopTimeUpdates = StopTimeUpdatesOf(tu, z, nil)
			if id := VehicleIDOf(tu.Vehicle); id != nil {
				getVeh(*id)
			}
		case e.Vehicle != nil:
			vp := e.Vehicle
			v := VehicleOf(vp, z)
			if v.ID != nil {
				i := getVeh(*v.ID)
				vehs[i] = v
			} else {
				idless = append(idless, v)
			}
			if vp.Trip != nil {
				getTrip(vp.Trip)
			}
		case e.Alert != nil:
			a := AlertShellOf(e.GetId(), e.Alert, z)
			for _, sel := range e.Alert.InformedEntity {
				ie := gtfs.AlertInformedEntity{AgencyID: cpS(sel.AgencyId), RouteID: cpS(sel.RouteId), RouteType: RouteTypeOf(sel.RouteType), DirectionID: DirectionOf(sel.DirectionId), StopID: cpS(sel.StopId)}
				if sel.Trip != nil {
					id := TripIDOf(sel.Trip, z, &res.UnassertedDates)
					ie.TripID = &id
					getTrip(sel.Trip)
				}
				a.InformedEntities = append(a.InformedEntities, ie)
			}
			rt.Alerts = append(rt.Alerts, a)
		}
	}
	rt.Vehicles = append(vehs, idless...)
	return res
}

// NeutralizeStartDates zeroes every trip start date reachable from rt (used on
// both sides when a start date of the message has no unique local midnight).
func NeutralizeStartDates(rt *gtfs.Realtime) {
	for i := range rt.Trips {
		rt.Trips[i].ID.StartDate = time.Time{}
		if v := rt.Trips[i].Vehicle; v != nil && v.Trip != nil {
			v.Trip.ID.StartDate = time.Time{}
		}
	}
	for i := range rt.Vehicles {
		if t := rt.Vehicles[i].Trip; t != nil {
			t.ID.StartDate = time.Time{}
		}
	}
	for i := range rt.Alerts {
		for j := range rt.Alerts[i].InformedEntities {
			if id := rt.Alerts[i].InformedEntities[j].TripID; id != nil {
				id.StartDate = time.Time{}
			}
		}
	}
}
