// vmon is the monitoring harness binary: `vmon parent <ID> <tier> [replay-file]`
// orchestrates child processes (`vmon child <json>`) that run the cases.
package main

import (
	"fmt"
	"os"

	"verifharness/core"
	_ "verifharness/mon"
)

func main() {
	if len(os.Args) < 2 {
		fmt.Println("usage: vmon parent <ID> <quick|thorough> [replay-file] | vmon child <json> | vmon list")
		os.Exit(2)
	}
	switch os.Args[1] {
	case "parent":
		if len(os.Args) < 4 {
			fmt.Println("usage: vmon parent <ID> <quick|thorough> [replay-file]")
			os.Exit(2)
		}
		replay := ""
		if len(os.Args) > 4 {
			replay = os.Args[4]
		}
		os.Exit(core.ParentMain(os.Args[2], os.Args[3], replay))
	case "child":
		os.Exit(core.ChildMain(os.Args[2]))
	case "list":
		for _, id := range core.AllIDs() {
			fmt.Println(id)
		}
	default:
		fmt.Println("unknown command", os.Args[1])
		os.Exit(2)
	}
}
